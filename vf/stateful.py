"""Glue between Hypothesis rule-based state machines and the collect-then-shrink driver.

A property module defines
    new_state(init_case) -> state
    apply(state, step, ctx) -> None      (plain interpreter, also used by replay)
and a machine whose rules only *draw* step descriptors and call self.do(step).  The history
(list of JSON steps) is the replay file; replay bypasses Hypothesis entirely.
"""
from hypothesis.errors import HypothesisException
from hypothesis.stateful import RuleBasedStateMachine

from .core import Ctx, Reject, Unsupported, triage_exception


def history_body(new_state, apply):
    """body(case, ctx) for replay/enumeration of a recorded history"""
    def body(case, ctx):
        state = new_state(case['init'], ctx)
        for step in case['steps']:
            apply(state, step, ctx)
            if ctx.failures:
                break
    return body


class HistoryMachine(RuleBasedStateMachine):
    """subclass sets: SUB (name), SINK (callable(case, ctx) -> bool raise?), AGG, NEW_STATE, APPLY"""
    SUB = None
    SINK = None
    AGG = None
    NEW_STATE = None
    APPLY = None

    def __init__(self):
        super().__init__()
        self.ctx = Ctx(self.SUB)
        self.init = None
        self.steps = []
        self.state = None
        self.dead = False
        self.reported = False

    # -- to be called from an @initialize rule
    def start(self, init_case):
        self.init = init_case
        try:
            self.state = type(self).NEW_STATE(init_case, self.ctx)
        except (Reject, Unsupported):
            self.dead = True
        except HypothesisException:
            raise
        except Exception as e:   # noqa
            self._exc(e)

    def _exc(self, e):
        origin, where, tb = triage_exception(e)
        if origin == 'library' and type(e).__name__ == 'LinAlgError' and where and where.startswith('skfem/element/element_global.py'):
            self.dead = True
            return
        if origin == 'library':
            self.ctx.fail('exception', tb, exc=type(e).__name__, where=where)
        else:
            type(self).AGG.harness_errors.append(dict(sub=self.SUB, where=where, tb=tb))
        self.dead = True

    def do(self, step):
        if self.dead or self.state is None:
            return
        self.steps.append(step)
        try:
            type(self).APPLY(self.state, step, self.ctx)
        except (Reject, Unsupported):
            self.steps.pop()
            return
        except HypothesisException:
            raise
        except Exception as e:   # noqa
            self._exc(e)
        if self.ctx.failures:
            self.dead = True
            self._report()

    def _report(self):
        if self.reported or self.init is None:
            return
        self.reported = True
        stop = type(self).SINK(dict(init=self.init, steps=list(self.steps)), self.ctx)
        if stop:
            raise AssertionError('match')

    def teardown(self):
        if self.init is not None and not self.reported and self.state is not None:
            self._report()


def make_machine(base, sub, sink, agg, new_state, apply):
    return type(base.__name__ + 'Bound', (base,), dict(SUB=sub, SINK=staticmethod(sink), AGG=agg,
                                                       NEW_STATE=staticmethod(new_state), APPLY=staticmethod(apply)))
