"""Worker process: runs one shard of one sub-check and prints a JSON result on stdout.

usage: python -m vf.worker <task.json>      (task is a small dict, see run.py)
modes: explore | shrink | replay
"""
import json
import os
import sys
import time


def _seed_int(*parts):
    import hashlib
    return int(hashlib.sha256('|'.join(str(p) for p in parts).encode()).hexdigest()[:12], 16)


class Agg:
    def __init__(self, sub):
        self.sub = sub
        self.evaluations = 0
        self.rejected = 0
        self.skipped = {}
        self.nt_hashes = set()
        self.all_hashes = 0
        self.classes = {}
        self.samples = []
        self.nt_samples = []
        self.failures = {}       # sig_key -> {sig, count, case, detail, size}
        self.harness_errors = []

    def record(self, case, ctx, keep_case=True):
        from .core import case_hash, jsonable, sig_key
        self.evaluations += 1
        for c in ctx.classes:
            self.classes[c] = self.classes.get(c, 0) + 1
        for c, n in getattr(ctx, 'counters', {}).items():
            self.classes[c] = self.classes.get(c, 0) + n
        # bodies that explore many inner cases (schedules of one configuration) report them individually
        self.evaluations += max(0, int(getattr(ctx, 'inner_evaluations', 0)) - 1)
        for hsh in getattr(ctx, 'inner_nontrivial', ()):
            self.nt_hashes.add(hsh)
        jc = None
        if ctx.nontrivial:
            self.nt_hashes.add(case_hash(case))
            if len(self.nt_samples) < 2:
                self.nt_samples.append(jsonable(case))
        elif len(self.samples) < 1:
            self.samples.append(jsonable(case))
        for sig, detail in ctx.failures:
            k = sig_key(sig)
            if jc is None:
                jc = jsonable(case)
                size = len(json.dumps(jc))
            ent = self.failures.get(k)
            if ent is None:
                self.failures[k] = dict(sig=sig, count=1, case=jc, detail=detail, size=size)
            else:
                ent['count'] += 1
                if size < ent['size']:
                    ent.update(case=jc, detail=detail, size=size)

    def out(self):
        return dict(sub=self.sub, evaluations=self.evaluations, rejected=self.rejected,
                    skipped=self.skipped, nt_hashes=sorted(self.nt_hashes),
                    classes=self.classes, samples=self.nt_samples + self.samples,
                    failures=list(self.failures.values()), harness_errors=self.harness_errors[:5])


def run_body(sub, case, agg, want_sig=None):
    """run body on one case; returns ctx (or None if rejected/unsupported/harness error)"""
    from hypothesis.errors import HypothesisException
    from .core import Ctx, Reject, Unsupported, triage_exception
    ctx = Ctx(sub.name)
    try:
        sub.body(case, ctx)
    except Reject:
        agg.rejected += 1
        return None
    except Unsupported as e:
        k = str(e)[:80]
        agg.skipped[k] = agg.skipped.get(k, 0) + 1
        return None
    except HypothesisException:
        raise
    except Exception as e:  # noqa
        origin, where, tb = triage_exception(e)
        if origin == 'library' and type(e).__name__ == 'LinAlgError' and where and where.startswith('skfem/element/element_global.py'):
            # globally defined elements invert a per-cell Vandermonde matrix in physical coordinates; on cell shapes outside
            # the element's range (e.g. Q2-type spaces on non-parallelogram cells) it is singular: unsupported, not a defect
            k = 'ElementGlobal: singular per-cell Vandermonde matrix'
            agg.skipped[k] = agg.skipped.get(k, 0) + 1
            return None
        if origin == 'library':
            ctx.fail('exception', tb, exc=type(e).__name__, where=where)
        else:
            agg.harness_errors.append(dict(sub=sub.name, where=where, tb=tb))
            return None
    agg.record(case, ctx)
    return ctx


def matches(ctx, want_key):
    from .core import sig_key
    return ctx is not None and any(sig_key(s) == want_key for s, _ in ctx.failures)


def explore(prop, sub, task):
    import hypothesis
    from hypothesis import HealthCheck, Phase, given, settings
    agg = Agg(sub.name)
    n = task['n']
    tier = task['tier']
    seed = _seed_int(task['seed'], prop.pid, sub.name, task['shard'])
    shrink_key = task.get('shrink_key')
    found = {}

    if sub.kind == 'enumerate':
        cases = sub.cases(tier)
        for i, case in enumerate(cases):
            if i % task['nshards'] != task['shard']:
                continue
            run_body(sub, case, agg)
        res = agg.out()
        res['enumerated_total'] = len(cases)
        return res

    phases = (Phase.generate, Phase.shrink) if shrink_key else (Phase.generate,)
    sett = settings(max_examples=n, database=None, deadline=None, report_multiple_bugs=False,
                    suppress_health_check=[HealthCheck.too_slow, HealthCheck.data_too_large,
                                           HealthCheck.large_base_example],
                    phases=phases, derandomize=False, print_blob=False,
                    stateful_step_count=(sub.steps[0] if tier == 'quick' else sub.steps[1]))

    if sub.kind == 'given':
        @hypothesis.seed(seed)
        @settings(sett)
        @given(sub.strategy(tier))
        def test(case):
            ctx = run_body(sub, case, agg)
            if shrink_key and matches(ctx, shrink_key):
                from .core import jsonable, sig_key
                found['case'] = jsonable(case)
                found['detail'] = [d for s, d in ctx.failures if sig_key(s) == shrink_key][0]
                raise AssertionError('match')
        try:
            test()
        except AssertionError:
            pass
    else:
        from hypothesis.stateful import run_state_machine_as_test

        def sink(case, ctx):
            agg.record(case, ctx)
            if shrink_key and matches(ctx, shrink_key):
                from .core import jsonable, sig_key
                found['case'] = jsonable(case)
                found['detail'] = [d for s, d in ctx.failures if sig_key(s) == shrink_key][0]
                return True
            return False
        M = sub.machine(tier, sink, agg)
        try:
            run_state_machine_as_test(hypothesis.seed(seed)(M), settings=sett)
        except AssertionError:
            pass
    res = agg.out()
    if shrink_key:
        res['shrunk'] = found
    return res


def replay(prop, sub, task):
    agg = Agg(sub.name)
    ctx = run_body(sub, task['case'], agg)
    res = agg.out()
    res['replay_failures'] = [dict(sig=s, detail=d) for s, d in (ctx.failures if ctx else [])]
    return res


def main():
    task = json.load(open(sys.argv[1]))
    t0 = time.time()
    from .core import load_prop, setup
    try:
        setup()
        prop = load_prop(task['prop'])
        sub = prop.subs[task['sub']]
        if task['mode'] == 'replay':
            res = replay(prop, sub, task)
        else:
            res = explore(prop, sub, task)
    except Exception as e:  # harness-level failure
        import traceback
        res = dict(sub=task.get('sub'), fatal=''.join(traceback.format_exception(type(e), e, e.__traceback__))[-3000:])
    res['wall_s'] = time.time() - t0
    res['task'] = {k: task[k] for k in ('prop', 'sub', 'mode', 'shard', 'n') if k in task}
    with open(task['out'], 'w') as f:
        json.dump(res, f)


if __name__ == '__main__':
    main()
