"""Core data types: sub-check registry, per-case context, aggregation, exception triage."""
import hashlib
import json
import os
import sys
import traceback

from . import REPO, VERIF


class Reject(Exception):
    """case violates a stated precondition of the property (counted, not an evaluation)"""


class Unsupported(Exception):
    """combination the library documents/raises as unsupported (support matrix)"""


class HarnessError(Exception):
    pass


def setup():
    """import skfem from the tree under test and make it quiet"""
    import logging
    import warnings
    warnings.filterwarnings('ignore')
    os.environ.setdefault('JAX_PLATFORMS', 'cpu')
    import skfem
    f = os.path.realpath(skfem.__file__)
    if not f.startswith(REPO + os.sep):
        raise HarnessError(f'skfem imported from {f}, expected under {REPO}')
    logging.getLogger('skfem').setLevel(logging.ERROR)
    return skfem


def jsonable(x):
    import numpy as np
    if isinstance(x, dict):
        return {str(k): jsonable(v) for k, v in x.items()}
    if isinstance(x, (list, tuple)):
        return [jsonable(v) for v in x]
    if isinstance(x, np.ndarray):
        return x.tolist()
    if isinstance(x, (np.integer,)):
        return int(x)
    if isinstance(x, (np.floating,)):
        return float(x)
    if isinstance(x, (np.bool_,)):
        return bool(x)
    if isinstance(x, complex):
        return {'re': x.real, 'im': x.imag}
    if isinstance(x, (set, frozenset)):
        return sorted(jsonable(v) for v in x)
    return x


def case_hash(case):
    return hashlib.sha1(json.dumps(jsonable(case), sort_keys=True).encode()).hexdigest()[:16]


def abbreviate(x, maxlist=12, depth=0):
    """shorten long lists for evidence samples"""
    if isinstance(x, dict):
        return {k: abbreviate(v, maxlist, depth + 1) for k, v in x.items()}
    if isinstance(x, list):
        if len(x) > maxlist:
            return [abbreviate(v, maxlist, depth + 1) for v in x[:maxlist]] + [f'... ({len(x)} items)']
        return [abbreviate(v, maxlist, depth + 1) for v in x]
    return x


class Ctx:
    """what a body reports about one case"""

    def __init__(self, sub):
        self.sub = sub
        self.classes = []
        self.nontrivial = False
        self.failures = []      # (signature dict, detail)
        self.notes = []

    def cls(self, *labels):
        self.classes.extend(str(lab) for lab in labels)

    def count(self, label, n=1):
        """add n to a class counter (for bodies that explore many schedules/points per case)"""
        self.counters = getattr(self, 'counters', {})
        self.counters[str(label)] = self.counters.get(str(label), 0) + int(n)

    def nt(self, flag=True):
        if flag:
            self.nontrivial = True

    def fail(self, what, detail='', **sig):
        # keys starting with '_' are detail only (they do not split buckets)
        s = {'check': self.sub, 'what': what}
        s.update({k: (v if isinstance(v, (int, bool)) else str(v)) for k, v in sig.items()
                  if not k.startswith('_')})
        extra = ' '.join(f'{k[1:]}={v}' for k, v in sig.items() if k.startswith('_'))
        self.failures.append((s, (extra + ' | ' if extra else '') + str(detail)[:1500]))

    def close(self, what, got, want, tol, scale=1.0, **sig):
        """report a failure if |got-want| > tol*scale (arrays allowed); returns True if ok"""
        import numpy as np
        got = np.asarray(got)
        want = np.asarray(want)
        if got.shape != want.shape:
            self.fail(what, f'shape {got.shape} vs {want.shape}', **sig)
            return False
        if got.size == 0:
            return True
        with np.errstate(all='ignore'):
            err = np.abs(got - want)
        bad = ~(err <= tol * scale)
        if np.any(bad):
            e = float(np.nanmax(np.where(np.isfinite(err), err, np.inf))) if err.size else 0.0
            self.fail(what, f'max err {e:.3e} > tol {tol:.1e}*scale {float(np.max(scale)):.3e}; '
                      f'got {np.ravel(got)[:6]} want {np.ravel(want)[:6]}', **sig)
            return False
        return True


def sig_key(sig):
    return json.dumps(sig, sort_keys=True)


def triage_exception(exc):
    """Decide whether an exception that escaped a body came from the library under test
    (innermost relevant frame under $VF_REPO) or from the harness (under /verif/vf)."""
    tb = traceback.extract_tb(exc.__traceback__)
    where = None
    origin = 'harness'
    for fr in reversed(tb):
        fn = os.path.realpath(fr.filename)
        if fn.startswith(REPO + os.sep):
            origin = 'library'
            where = f'{os.path.relpath(fn, REPO)}:{fr.name}'
            break
        if fn.startswith(os.path.join(VERIF, 'vf') + os.sep):
            # a harness frame is innermost.  If the library sits between it and the body (the frame is a callback -- an integrand,
            # a predicate -- that the library called with its own arrays), the arguments came from the library: a library failure
            # observed in the callback.  (Checks are quiet on the unchanged tree, so a bug of the callback itself shows up there
            # as a report to be fixed either way.)
            lib = [g for g in tb[:tb.index(fr)] if os.path.realpath(g.filename).startswith(REPO + os.sep)]
            if lib:
                origin = 'library'
                where = f'{os.path.relpath(os.path.realpath(lib[-1].filename), REPO)}:{lib[-1].name}(callback)'
            else:
                origin = 'harness'
                where = f'{os.path.relpath(fn, VERIF)}:{fr.name}:{fr.lineno}'
            break
    return origin, where, ''.join(traceback.format_exception(type(exc), exc, exc.__traceback__))[-1800:]


class Sub:
    """One sub-check.

    kind 'given'     : strategy(tier) -> hypothesis strategy of JSON-able cases; body(case, ctx)
    kind 'enumerate' : cases(tier) -> list of JSON-able cases (complete enumeration, sharded)
    kind 'machine'   : machine(tier, sink) -> RuleBasedStateMachine subclass; each finished
                       history is handed to sink(history_case, ctx-filled-by-machine);
                       body(case, ctx) replays a recorded history without Hypothesis.
    """

    def __init__(self, name, body, strategy=None, cases=None, machine=None,
                 quick=200, thorough=2000, max_shards=16, steps=(8, 20), cost='ms'):
        self.name = name
        self.body = body
        self.strategy = strategy
        self.cases = cases
        self.machine = machine
        self.quick = quick
        self.thorough = thorough
        self.max_shards = max_shards
        self.steps = steps
        self.kind = 'given' if strategy else ('enumerate' if cases else 'machine')


class Prop:
    def __init__(self, pid, title, rule, assumptions, subs, design_ref=''):
        self.pid = pid
        self.title = title
        self.rule = rule
        self.assumptions = assumptions
        self.subs = {s.name: s for s in subs}
        self.design_ref = design_ref


def load_prop(pid):
    import importlib
    mod = importlib.import_module(f'vf.props.{pid.lower()}')
    from .added import ADDED
    if ADDED.get(pid) and ADDED[pid] not in mod.PROP.rule:
        mod.PROP.rule += (' ' if mod.PROP.rule.rstrip().endswith('.') else '. ') + ADDED[pid]
    return mod.PROP
