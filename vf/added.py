"""What rounds 3 and 4 of the sensitivity audit added to each check (appended to the evidence `rule` by core.load_prop and to
the MANIFEST text by tools/gen_manifest.py; DESIGN.md section 15 has the same list by kind)."""
ADDED = {
    'C01': 'Rounds 3-4: bases obtained through with_element / with_elements / boundary / an explicit quadrature must assemble what the '
           'directly constructed basis assembles; coefficient vectors stored as float32; integrands that return one of their inputs '
           '(w["g"], w.h) leave it unchanged and evaluate twice alike. Round 6: a complex integrand in a Functional assembled with the default dtype gives the same number as with dtype=complex128.',
    'C02': 'Rounds 3-4: sub-check facet_forms (v^T M u and b^T v of facet forms for nodal interpolants of polynomials = exact rational '
           'facet integrals, also on meshes mixing affine and general cells); unions of overlapping named subdomains; subset bases '
           'derived with with_element; sharp integration orders on the (affine) prisms; rigid motions scaled with the mesh. Round 6: monomials up to degree 5 (quick) / 6 (thorough) on three-dimensional cells.',
    'C03': 'Rounds 3-4: committed coverage replays for hierarchical quadrilateral elements of degree 5 and 6 on shifted cells. Round 5b: connectivity of unsigned dtype in the shared mesh builder; a globally defined element instance that has served on a sibling mesh sharing the coordinate array; degree-aware conditioning yardstick for ElementGlobal.',
    'C04': 'Rounds 3-4: the location table is single-valued for EVERY element (not only nodal ones); sub-check special: periodic tensor '
           'meshes glued in one, two or three directions and CompositeBasis of two to four bases (numbers 0..N-1 all used, N as counted, '
           'blocks one after the other, no empty matrix row); bases built on meshes that have served before (discarded operations) or '
           'come from adaptive refinement. Round 6: for nodal elements (also under ElementDG) row i of the location table is the node of local function i (delta_ij).',
    'C05': 'Rounds 3-4: complex systems; prescribed values and data in small units (2^-30).',
    'C06': 'Rounds 3-4: assembly piece by piece over equally large cell sets; hierarchical elements up to p = 5 with full-degree solutions; '
           'Dirichlet set built with the union operator of views; keyword projection on closed facet sets. Round 5b: mesh objects that have served before (tables read, oriented/refined/translated copies derived and dropped); for vertex-based spaces the unknowns taken from mesh.interior_nodes().',
    'C07': 'Rounds 3-4: the deprecated dictionary form with filters; cells selected by a name given on a coarser mesh and carried through '
           'refined(k) (the selection it must stand for is found with a geometric parent map).',
    'C08': 'Rounds 3-4: sub-check high_orders: orders 64..300 (400) on the segment and 64, 200 on the quadrilateral judged with shifted '
           'Legendre polynomials (orthogonality relations of total degree n), which monomials cannot resolve.',
    'C09': 'Rounds 3-4: integer-typed reference points; one element instance evaluated at two point arrays that share coordinates. Round 5b: the same point array changed in place between two evaluations; composites of one shared element instance (e * e) as partitions of unity per component. Round 6: nodal duality for the DG wrapper of every nodal element.',
    'C10': 'Rounds 3-4: permutation subsets after a whole-mesh evaluation on the same mapping object; normals of prisms from the reference '
           'table; normals of a basis derived with with_element from a basis on an oriented facet set.',
    'C11': 'Rounds 3-4: sub-check large: Delaunay tetrahedral meshes of 300-1000 points through the brute-force oracle, meshes beyond 2^16 '
           'vertices through a vectorised int64 re-computation; adaptive refinement in the battery of operations on the operand; '
           'the two parts of m @ n (vertex numbers no cell uses) as derived meshes.',
    'C12': 'Rounds 3-4: named boundaries kept by 3-D classes are judged geometrically; operands ending with points their cells do not use '
           '(part of m @ n); operands whose tables were read and that were refined adaptively / oriented before (results discarded); '
           'sub-check large (more than 46340 vertices, vectorised predicates).',
    'C13': 'Rounds 3-4: operand digests; the refined-from mesh used again (back step, uniform step after an adaptive one); marked arrays '
           'naming a cell more than once; two-level uniform steps; a base mesh of isosceles cells with tied longest edges.',
    'C14': 'Rounds 3-4: plain structured grids (reference coordinates recovered exactly); every domain point also asked alone; points moved in '
           'place in the same array object; trailing-axes queries in Fortran order and as strided views; points a hair (2^-24) inside a cell '
           'next to a face and a hair outside the domain (simplicial meshes).',
    'C15': 'Rounds 3-4: rules for relatives of tagged meshes tagged differently, operations repeated on one operand, an element used on two '
           'meshes sharing the point array, varying subsets with one point array object, default-constructor meshes, morphed; deterministic '
           'solvers compared bit for bit.',
    'C16': 'Rounds 3-4: one threaded form object reused with exchanged trial/test spaces; complex and single-precision forms under threads. Round 5b: test basis on a scaled copy of the mesh (other dx); an earlier elemental result compared again after the next threaded call.',
    'C17': 'Rounds 3-4: boundaries listing an interior facet from both sides (orientation compared as multiset per facet); the '
           'encode_point_data keyword; the same path written twice; meshes ending with points no cell uses; tags naming an entity twice; '
           'a second export with the loaded user data handed back after redefining a named set, and after editing the tags in place.',
    'C18': 'Rounds 3-5: restrict with every documented way of stating the selection and with tags naming cells twice; sum of the two parts of m @ n; sub-check large '
           '(to_meshtri, restrict and + beyond 46340 vertices).',
    'C19': 'Rounds 3-4: Form.block; the bases handed out by split() (also for subset and one-sided bases) interpolate like component bases '
           'with the quadrature of the whole; asm over lists with a raw coefficient vector.',
    'C20': 'Rounds 3-4: families complex (dtype=complex128) and basis_product; a NonlinearForm object reused on a second basis; det/inv '
           'for entries 2^-27..2^10. Round 5b: helper inputs that single precision cannot represent; local Jacobians of the elemental route against BilinearForm of the linearisation. Round 6: elemental(...)[1] against the assembled vector; basis products whose later bases live on a translated copy of the mesh with an integrand reading w.x.',
}
