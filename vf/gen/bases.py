"""basis descriptors and builders

descriptor: {'kind': 'cell' | 'cellsub' | 'bnd' | 'facetsub' | 'oriented' | 'interior' | 'interiorsub',
             'picks': [ints] (data-relative), 'side': 0|1, 'intorder': n, 'sel': 'array'|'int32'|'list'}
"""
import numpy as np
from hypothesis import strategies as st

KINDS = ['cell', 'cellsub', 'bnd', 'facetsub', 'oriented', 'interior', 'interiorsub']


@st.composite
def basis_desc(draw, kinds=KINDS, max_order=4, min_order=1):
    k = draw(st.sampled_from(list(kinds)))
    return dict(kind=k, picks=draw(st.lists(st.integers(0, 10**4), min_size=1, max_size=10)),
                side=draw(st.integers(0, 1)), intorder=draw(st.integers(min_order, max_order)),
                ori=draw(st.lists(st.integers(0, 1), min_size=1, max_size=5)),
                # how the user gets hold of the basis object: the constructor, or one of the documented derivations of another basis
                via=draw(st.sampled_from(['direct', 'direct', 'direct', 'with_element', 'with_elements', 'boundary', 'quadrature'])))


def cap_order(kind, n, facet=False):
    """integration orders the tables offer"""
    if kind == 'tet' and not facet:
        return min(n, 8)
    return n


def uniq(picks, pool):
    out = []
    for k in picks:
        v = int(pool[int(k) % len(pool)])
        if v not in out:
            out.append(v)
    return np.array(out, dtype=np.int32)


def facet_supported(mesh_kind, elem_desc):
    from . import elements as ge
    if mesh_kind in ('wedge',):
        return False

    def percell(d):
        if d['cls'] in ('ElementVector', 'ElementDG'):
            return percell(d['of'])
        if d['cls'] == 'ElementComposite':
            return all(percell(x) for x in d['of'])
        return ge.R[d['cls']]['percell']
    return percell(elem_desc)


def resolve(m, bdesc, mesh_kind):
    """-> dict(kind, cells|facets, side) with concrete indices; kind may degrade when a pool is empty"""
    from skfem.generic_utils import OrientedBoundary
    kind = bdesc['kind']
    bf = m.boundary_facets()
    inner = np.setdiff1d(np.arange(m.nfacets), bf).astype(np.int32)
    if kind in ('interior', 'interiorsub', 'oriented') and len(inner) == 0:
        kind = 'bnd'
    out = dict(kind=kind, side=0, intorder=bdesc['intorder'], via=bdesc.get('via', 'direct'))
    if kind == 'cellsub':
        out['cells'] = uniq(bdesc['picks'], np.arange(m.nelements))
    elif kind == 'facetsub':
        out['facets'] = uniq(bdesc['picks'], bf)
    elif kind == 'interiorsub':
        out['facets'] = uniq(bdesc['picks'], inner)
        out['side'] = bdesc['side']
    elif kind == 'interior':
        out['side'] = bdesc['side']
    elif kind == 'oriented':
        f = np.sort(uniq(bdesc['picks'], inner))
        ori = np.array([bdesc['ori'][i % len(bdesc['ori'])] for i in range(len(f))], dtype=np.int32)
        out['facets'] = OrientedBoundary(f, ori)
        out['side'] = bdesc['side']
    return out


def build(m, elem, r, side=None):
    b = _build_direct(m, elem, r, side)
    via = r.get('via', 'direct')
    from skfem import CellBasis, FacetBasis, InteriorFacetBasis
    kind = r['kind']
    s = r['side'] if side is None else side
    try:
        if via == 'with_element':
            # the same integration entities and quadrature, obtained from a basis with the mesh's own element
            return _build_direct(m, m.elem(), r, side).with_element(elem)
        if via == 'with_elements' and kind in ('cell', 'cellsub'):
            return CellBasis(m, elem, intorder=r['intorder']).with_elements(r['cells'] if kind == 'cellsub' else None)
        if via == 'boundary' and kind in ('bnd', 'facetsub'):
            return CellBasis(m, elem, intorder=r['intorder']).boundary(r['facets'] if kind == 'facetsub' else None, intorder=r['intorder'])
        if via == 'quadrature':
            kw = dict(quadrature=b.quadrature)
            if kind == 'cell':
                return CellBasis(m, elem, **kw)
            if kind == 'cellsub':
                return CellBasis(m, elem, elements=r['cells'], **kw)
            if kind == 'bnd':
                return FacetBasis(m, elem, **kw)
            if kind == 'facetsub':
                return FacetBasis(m, elem, facets=r['facets'], **kw)
            if kind == 'interior':
                return InteriorFacetBasis(m, elem, side=s, **kw)
            if kind == 'interiorsub':
                return InteriorFacetBasis(m, elem, facets=r['facets'], side=s, **kw)
    except NotImplementedError:
        pass
    return b


def _build_direct(m, elem, r, side=None):
    from skfem import CellBasis, FacetBasis, InteriorFacetBasis
    kind = r['kind']
    io = r['intorder']
    s = r['side'] if side is None else side
    if kind == 'cell':
        return CellBasis(m, elem, intorder=io)
    if kind == 'cellsub':
        return CellBasis(m, elem, elements=r['cells'], intorder=io)
    if kind == 'bnd':
        return FacetBasis(m, elem, intorder=io)
    if kind == 'facetsub':
        return FacetBasis(m, elem, facets=r['facets'], intorder=io)
    if kind == 'interior':
        return InteriorFacetBasis(m, elem, intorder=io, side=s)
    if kind == 'interiorsub':
        return InteriorFacetBasis(m, elem, facets=r['facets'], intorder=io, side=s)
    if kind == 'oriented':
        return FacetBasis(m, elem, facets=r['facets'], intorder=io, side=s)
    raise ValueError(kind)


def integrated_cells(basis):
    """global cell index of every integration entity of the basis"""
    tind = getattr(basis, 'tind', None)
    if tind is None:
        return np.arange(basis.mesh.nelements)
    return np.asarray(tind)
