"""tag descriptors (data-relative facet picks, explicit cell indices)"""
from hypothesis import strategies as st


@st.composite
def tags(draw, ncells, subdomains=True, boundaries=True, oriented=False, maxnames=2, pools=('boundary', 'interior', 'all'),
         names=False, empty_boundaries=False, repeats=False):
    """names=True: realistic names that contain the separators/prefixes storage formats use internally"""
    SN = ['s_s', 'glass_1', 'solid', 'rib_s_2', 'b_core', 'Omega', 's_', 'left']
    BN = ['b_b', 'web_top', 'gamma', 'rib_b_2', 's_wall', 'b_', 'inlet_b_s_', 'left']
    out = {}
    if subdomains:
        s = {}
        for k in range(draw(st.integers(0, maxnames))):
            mode = draw(st.sampled_from(['subset', 'subset', 'subset', 'all', 'empty', 'single']))
            if mode == 'all':
                ix = list(range(ncells))
            elif mode == 'empty':
                ix = []
            elif mode == 'single':
                ix = [draw(st.integers(0, ncells - 1))]
            else:
                ix = draw(st.lists(st.integers(0, ncells - 1), min_size=1, max_size=ncells, unique=True))
            if repeats and ix and draw(st.integers(0, 4)) == 0:
                ix = ix + ix[:1]            # an index array naming an entity twice (np.concatenate of overlapping selections)
            s[(draw(st.sampled_from(SN)) if names else f's{k}')] = ix
        out['subdomains'] = s
    if boundaries:
        b = {}
        for k in range(draw(st.integers(0, maxnames))):
            spec = dict(pool=draw(st.sampled_from(list(pools))),
                        picks=draw(st.lists(st.integers(0, 10**4), min_size=1, max_size=12)))
            spec['ori'] = draw(st.lists(st.integers(0, 1), min_size=1, max_size=6)) if (oriented and draw(st.booleans())) else None
            if repeats and draw(st.integers(0, 4)) == 0:
                spec['repeat'] = True
            if empty_boundaries and spec['ori'] is not None and draw(st.integers(0, 2)) == 0:
                spec['twosided'] = True     # interior facets listed from both sides (skin of two adjacent regions in one name)
            if empty_boundaries and draw(st.integers(0, 5)) == 0:
                spec['picks'] = []          # a named boundary that (currently) matches no facet is still a name
            b[(draw(st.sampled_from(BN)) if names else f'b{k}')] = spec
        out['boundaries'] = b
    return out
