"""Integrand grammar: JSON trees that are linear in each argument function, and one evaluator
used for all three form types (so the forms are comparable by construction).

term = {'ucomp': k, 'vcomp': k, 'du': k, 'dv': k, 'pairs': [[i, j, c], ...], 'coef': coef}
  ucomp/vcomp : which component field of a composite argument (mod number of components)
  du/dv       : which delivered field (value, grad, div, curl, hess, ... ; mod number available)
  pairs       : the bilinear contraction  sum_c  c * (D_a u)[i] * (D_b v)[j]  over flattened
                tensor components (indices mod number of components)
coef = {'type': 'const', 're': a, 'im': b} | {'type': 'x', 'exp': [..], 'c': a} | {'type': 'h'}
     | {'type': 'n', 'comp': k} | {'type': 'param'}
"""
import numpy as np
from hypothesis import strategies as st

ATTRS = ['value', 'grad', 'div', 'curl', 'hess', 'grad3', 'grad4']
CV = st.sampled_from([1.0, -1.0, 0.5, 2.0, -0.25, 3.0])


@st.composite
def coef(draw, allow_complex=True, allow_n=True, allow_param=True):
    kinds = ['const', 'const', 'x', 'x', 'h'] + (['n'] if allow_n else []) + (['param', 'param'] if allow_param else [])
    k = draw(st.sampled_from(kinds))
    if k == 'const':
        im = draw(st.sampled_from([0.0, 0.0, 0.0, 1.0, -0.5])) if allow_complex else 0.0
        return dict(type='const', re=draw(CV), im=im)
    if k == 'x':
        return dict(type='x', exp=draw(st.lists(st.integers(0, 2), min_size=3, max_size=3)), c=draw(CV))
    if k == 'n':
        return dict(type='n', comp=draw(st.integers(0, 2)))
    return dict(type=k)


@st.composite
def term(draw, **kw):
    npairs = draw(st.integers(1, 3))
    return dict(ucomp=draw(st.integers(0, 5)), vcomp=draw(st.integers(0, 5)),
                du=draw(st.integers(0, 7)), dv=draw(st.integers(0, 7)),
                pairs=[[draw(st.integers(0, 11)), draw(st.integers(0, 11)), draw(CV)] for _ in range(npairs)],
                coef=draw(coef(**kw)))


@st.composite
def integrand(draw, max_terms=3, **kw):
    return draw(st.lists(term(**kw), min_size=1, max_size=max_terms))


def is_complex(tree):
    return any(t['coef']['type'] == 'const' and t['coef'].get('im', 0.0) != 0.0 for t in tree)


def uses(tree, what):
    return any(t['coef']['type'] == what for t in tree)


# ---------------------------------------------------------------------------- evaluation
def avail(field):
    return [a for a in ATTRS if getattr(field, a, None) is not None]


def comps(arr):
    arr = np.asarray(arr)
    lead = arr.shape[:-2]
    if not lead:
        return [arr]
    return [arr[idx] for idx in np.ndindex(*lead)]


def as_tuple(f):
    return tuple(f) if isinstance(f, (tuple, list)) else (f,)


def scalar_of(f):
    if isinstance(f, (int, float, complex)):
        return f
    f = as_tuple(f)[0]
    v = f.value if hasattr(f, 'value') else f
    return comps(v)[0]


def eval_coef(c, w):
    t = c['type']
    if t == 'const':
        return complex(c['re'], c['im']) if c.get('im', 0.0) else c['re']
    if t == 'x':
        x = w['x'].value if hasattr(w['x'], 'value') else np.asarray(w['x'])
        out = c['c']
        for k in range(x.shape[0]):
            if c['exp'][k]:
                out = out * x[k] ** c['exp'][k]
        return out + 0 * x[0]
    if t == 'h':
        h = w['h']
        return h.value if hasattr(h, 'value') else h
    if t == 'n':
        n = w['n'].value if hasattr(w['n'], 'value') else np.asarray(w['n'])
        return n[c['comp'] % n.shape[0]]
    if t == 'param':
        return scalar_of(w['f'])
    raise ValueError(t)


def eval_term(t, U, V, w):
    fu = U[t['ucomp'] % len(U)]
    fv = V[t['vcomp'] % len(V)]
    au, av = avail(fu), avail(fv)
    A = comps(getattr(fu, au[t['du'] % len(au)]))
    B = comps(getattr(fv, av[t['dv'] % len(av)]))
    s = 0
    for i, j, c in t['pairs']:
        s = s + c * A[i % len(A)] * B[j % len(B)]
    return eval_coef(t['coef'], w) * s


def eval_tree(tree, U, V, w):
    out = 0
    for t in tree:
        out = out + eval_term(t, as_tuple(U), as_tuple(V), w)
    return out


def eval_tree_abs(tree, U, V, w):
    """magnitude of what eval_tree sums: every product of the contraction taken in absolute value before adding
    (bounds rounding even where the tree cancels identically, e.g. S_01 - S_10 of a symmetric tensor)"""
    out = 0
    U, V = as_tuple(U), as_tuple(V)
    for t in tree:
        fu = U[t['ucomp'] % len(U)]
        fv = V[t['vcomp'] % len(V)]
        au, av = avail(fu), avail(fv)
        A = comps(getattr(fu, au[t['du'] % len(au)]))
        B = comps(getattr(fv, av[t['dv'] % len(av)]))
        s = 0
        for i, j, c in t['pairs']:
            s = s + np.abs(c * A[i % len(A)] * B[j % len(B)])
        out = out + np.abs(eval_coef(t['coef'], w)) * s
    return out


def describe(tree, U, V):
    """human-readable version of a tree for failure details / samples"""
    out = []
    for t in tree:
        fu = as_tuple(U)[t['ucomp'] % len(as_tuple(U))]
        fv = as_tuple(V)[t['vcomp'] % len(as_tuple(V))]
        au, av = avail(fu), avail(fv)
        out.append(f"{t['coef']['type']}*sum(c*u{t['ucomp'] % len(as_tuple(U))}.{au[t['du'] % len(au)]}[i]"
                   f"*v{t['vcomp'] % len(as_tuple(V))}.{av[t['dv'] % len(av)]}[j])")
    return ' + '.join(out)


def symmetric(tree):
    """conservative: a tree is 'possibly symmetric' only if every term pairs the same operator
    and the same component for u and v"""
    return all(t['du'] == t['dv'] and t['ucomp'] == t['vcomp'] and all(i == j for i, j, _ in t['pairs']) for t in tree)
