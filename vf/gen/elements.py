"""Element registry (hand-annotated) and element-descriptor strategies.

descriptor: {'cls': 'ElementTriP2'} | {'cls': 'ElementLinePp', 'p': 3} | {'cls': 'ElementQuadP', 'p': 3}
          | {'cls': 'ElementVector', 'of': d[, 'dim': n]} | {'cls': 'ElementDG', 'of': d}
          | {'cls': 'ElementComposite', 'of': [d, ...]}
A fresh element instance is built for every case (caches on instances are C15's subject).
"""
from hypothesis import strategies as st

# family: h1 (conforming value-continuous), hdiv, hcurl, matrix (HHJ, normal-normal),
#         global-c1/global-c0 (ElementGlobal subclasses), noncon (CR-type), skeleton, l2 (P0 / DG-by-design)
# conf:   what is continuous across facets for EVERY coefficient vector:
#         'value' | 'normal' | 'tangential' | 'nn' | None
# deg:    largest k with P_k (Q_k-free statement: total degree) contained in the space (patch tests)
# pou:    value-type basis functions sum to one (partition of unity)
# nodal:  all DOFs are point values at finite doflocs (phi_i(x_j) = delta_ij)
R = {}


def reg(name, ref, family, conf, deg, pou=False, nodal=False, tensor=0, percell=True, scalar=True):
    R[name] = dict(name=name, ref=ref, family=family, conf=conf, deg=deg, pou=pou, nodal=nodal,
                   tensor=tensor, percell=percell, scalar=scalar)


# line
reg('ElementLineP0', 'line', 'l2', None, 0, pou=True, nodal=True)
reg('ElementLineP1', 'line', 'h1', 'value', 1, pou=True, nodal=True)
reg('ElementLineP2', 'line', 'h1', 'value', 2, pou=True, nodal=True)
reg('ElementLinePp', 'line', 'h1', 'value', 'p')
reg('ElementLineMini', 'line', 'h1', 'value', 1)
reg('ElementLineP1DG', 'line', 'l2', None, 1, pou=True, nodal=True)
reg('ElementLineHermite', 'line', 'global-c1', 'value', 3)
# tri
reg('ElementTriP0', 'tri', 'l2', None, 0, pou=True, nodal=True)
reg('ElementTriP1', 'tri', 'h1', 'value', 1, pou=True, nodal=True)
reg('ElementTriP2', 'tri', 'h1', 'value', 2, pou=True, nodal=True)
reg('ElementTriP3', 'tri', 'h1', 'value', 3, pou=True, nodal=True)
reg('ElementTriP4', 'tri', 'h1', 'value', 4, pou=True, nodal=True)
reg('ElementTriCR', 'tri', 'noncon', None, 1, pou=True, nodal=True)
reg('ElementTriCCR', 'tri', 'h1', 'value', 2)
reg('ElementTriMini', 'tri', 'h1', 'value', 1)
reg('ElementTriP1B', 'tri', 'h1', 'value', 1)
reg('ElementTriP2B', 'tri', 'h1', 'value', 2)
reg('ElementTriP1DG', 'tri', 'l2', None, 1, pou=True, nodal=True)
reg('ElementTriSkeletonP0', 'tri', 'skeleton', None, None)
reg('ElementTriSkeletonP1', 'tri', 'skeleton', None, None)
reg('ElementTriRT0', 'tri', 'hdiv', 'normal', 0, tensor=1, scalar=False)
reg('ElementTriRT1', 'tri', 'hdiv', 'normal', 0, tensor=1, scalar=False)
reg('ElementTriRT2', 'tri', 'hdiv', 'normal', 1, tensor=1, scalar=False)
reg('ElementTriBDM1', 'tri', 'hdiv', 'normal', 1, tensor=1, scalar=False)
reg('ElementTriN1', 'tri', 'hcurl', 'tangential', 0, tensor=1, scalar=False)
reg('ElementTriN2', 'tri', 'hcurl', 'tangential', 1, tensor=1, scalar=False)
reg('ElementTriN3', 'tri', 'hcurl', 'tangential', 2, tensor=1, scalar=False, percell=False)
reg('ElementTriHHJ0', 'tri', 'matrix', 'nn', 0, tensor=2, scalar=False)
reg('ElementTriHHJ1', 'tri', 'matrix', 'nn', 1, tensor=2, scalar=False)
reg('ElementTriMorley', 'tri', 'global-noncon', None, 2)
reg('ElementTriArgyris', 'tri', 'global-c1', 'value', 5)
reg('ElementTri15ParamPlate', 'tri', 'global-c0', 'value', 4)
reg('ElementTriHermite', 'tri', 'global-c0', 'value', 3)
reg('ElementTriP1G', 'tri', 'global-c0', 'value', 1)
reg('ElementTriP2G', 'tri', 'global-c0', 'value', 2)
# quad
reg('ElementQuad0', 'quad', 'l2', None, 0, pou=True, nodal=True)
reg('ElementQuad1', 'quad', 'h1', 'value', 1, pou=True, nodal=True)
reg('ElementQuad2', 'quad', 'h1', 'value', 2, pou=True, nodal=True)
reg('ElementQuadS2', 'quad', 'h1', 'value', 2, pou=True, nodal=True)
reg('ElementQuadP', 'quad', 'h1', 'value', 'p')
reg('ElementQuad1DG', 'quad', 'l2', None, 1, pou=True, nodal=True)
reg('ElementQuadBFS', 'quad', 'global-c1', 'value', 3)
reg('ElementQuad2G', 'quad', 'global-c0', 'value', 2)
reg('ElementQuadRT0', 'quad', 'hdiv', 'normal', 0, tensor=1, scalar=False)
reg('ElementQuadRT1', 'quad', 'hdiv', 'normal', 0, tensor=1, scalar=False)
reg('ElementQuadN1', 'quad', 'hcurl', 'tangential', 0, tensor=1, scalar=False)
# tet
reg('ElementTetP0', 'tet', 'l2', None, 0, pou=True, nodal=True)
reg('ElementTetP1', 'tet', 'h1', 'value', 1, pou=True, nodal=True)
reg('ElementTetP2', 'tet', 'h1', 'value', 2, pou=True, nodal=True)
reg('ElementTetMini', 'tet', 'h1', 'value', 1)
reg('ElementTetCR', 'tet', 'noncon', None, 1, pou=True, nodal=True)
reg('ElementTetCCR', 'tet', 'h1', 'value', 2, nodal=True, pou=True)
reg('ElementTetSkeletonP0', 'tet', 'skeleton', None, None)
reg('ElementTetRT0', 'tet', 'hdiv', 'normal', 0, tensor=1, scalar=False)
reg('ElementTetRT1', 'tet', 'hdiv', 'normal', 0, tensor=1, scalar=False)
reg('ElementTetN0', 'tet', 'hcurl', 'tangential', 0, tensor=1, scalar=False)
reg('ElementTetN1', 'tet', 'hcurl', 'tangential', 0, tensor=1, scalar=False)
# hex
reg('ElementHex0', 'hex', 'l2', None, 0, pou=True, nodal=True)
reg('ElementHex1', 'hex', 'h1', 'value', 1, pou=True, nodal=True)
reg('ElementHex2', 'hex', 'h1', 'value', 2, pou=True, nodal=True)
reg('ElementHexS2', 'hex', 'h1', 'value', 2, pou=True, nodal=True)
reg('ElementHex1DG', 'hex', 'l2', None, 1, pou=True, nodal=True)
reg('ElementHexRT1', 'hex', 'hdiv', 'normal', 0, tensor=1, scalar=False)
reg('ElementHexSkeleton0', 'hex', 'skeleton', None, None)
reg('ElementHexC1', 'hex', 'global-c1', 'value', 3)
# wedge
reg('ElementWedge1', 'wedge', 'h1', 'value', 1, pou=True, nodal=True)

PP_RANGE = {'ElementLinePp': (1, 6), 'ElementQuadP': (1, 5)}
ALIASES = {'ElementTriRT1': 'ElementTriRT0', 'ElementQuadRT1': 'ElementQuadRT0', 'ElementTetRT1': 'ElementTetRT0',
           'ElementTetN1': 'ElementTetN0'}


def info(desc):
    """registry entry of the innermost element class of a descriptor"""
    d = desc
    while d['cls'] in ('ElementVector', 'ElementDG'):
        d = d['of']
    if d['cls'] == 'ElementComposite':
        return None
    return R[d['cls']]


def names(ref=None, family=None, pred=None):
    out = []
    for n, e in R.items():
        if ref is not None and e['ref'] != ref:
            continue
        if family is not None and e['family'] not in (family if isinstance(family, (list, tuple, set)) else [family]):
            continue
        if pred is not None and not pred(e):
            continue
        out.append(n)
    return out


# 64 local functions of degree 6 with third derivatives: seconds per case.  Random generation leaves it out unless asked
# (thorough tiers ask); the enumerated sweeps of C09 and a committed C03 replay cover it in every tier.
COSTLY = {'ElementHexC1'}


@st.composite
def simple(draw, ref, family=None, pred=None, exclude=(), costly=False):
    cand = [n for n in names(ref, family, pred) if n not in exclude and (costly or n not in COSTLY)]
    n = draw(st.sampled_from(cand))
    d = {'cls': n}
    if n in PP_RANGE:
        lo, hi = PP_RANGE[n]
        d['p'] = draw(st.integers(lo, hi))
    return d


@st.composite
def wrapped(draw, ref, family=None, pred=None, exclude=(), vector=True, dg=True, composite=True, maxcomp=3, costly=False):
    """element descriptor, possibly wrapped in ElementVector / ElementDG / ElementComposite"""
    k = draw(st.integers(0, 9))
    base = draw(simple(ref, family, pred, exclude, costly=costly))
    scalar = R[base['cls']]['scalar']
    glob = R[base['cls']]['family'].startswith('global')
    if k <= 4 or glob:
        return base
    if k == 5 and vector and scalar:
        # explicit component counts different from the spatial dimension are documented and rarely used
        nd = draw(st.sampled_from([None, None, 1, 2, 3, 4]))
        if nd is not None:
            return {'cls': 'ElementVector', 'of': base, 'dim': nd}
        return {'cls': 'ElementVector', 'of': base}
    if k == 6 and dg:
        return {'cls': 'ElementDG', 'of': base}
    if k == 7 and vector and dg and scalar:
        return {'cls': 'ElementVector', 'of': {'cls': 'ElementDG', 'of': base}}
    if k >= 8 and composite:
        n = draw(st.integers(2, maxcomp))
        comps = [base]
        for _ in range(n - 1):
            c = draw(simple(ref, family, lambda e: not e['family'].startswith('global') and (pred is None or pred(e)), exclude))
            if draw(st.integers(0, 3)) == 0 and R[c['cls']]['scalar']:
                c = {'cls': 'ElementVector', 'of': c}
            comps.append(c)
        return {'cls': 'ElementComposite', 'of': comps}
    return base


def label(desc):
    c = desc['cls']
    if c == 'ElementVector':
        return f"Vector({label(desc['of'])}{',' + str(desc['dim']) if 'dim' in desc else ''})"
    if c == 'ElementDG':
        return f"DG({label(desc['of'])})"
    if c == 'ElementComposite':
        return 'Composite(' + ','.join(label(x) for x in desc['of']) + ')'
    if 'p' in desc:
        return f"{c}({desc['p']})"
    return c
