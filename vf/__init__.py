"""vf -- property-based verification framework for kinnala/scikit-fem (see /verif/DESIGN.md).

Importing this package puts the repository under test ($VF_REPO, default /repo) first on
sys.path and silences the library's logging/warnings noise.  Nothing here imports skfem
eagerly: `vf.core.setup()` does, and asserts the import came from $VF_REPO.
"""
import os
import sys

VERIF = os.path.dirname(os.path.dirname(os.path.abspath(__file__)))
REPO = os.path.realpath(os.environ.get('VF_REPO', '/repo'))
GUARD = 'SKFEM_VERIF'

if REPO not in sys.path[:1]:
    sys.path.insert(0, REPO)
_deps = os.path.join(VERIF, '.deps')
if os.path.isdir(_deps) and _deps not in sys.path:
    sys.path.append(_deps)
