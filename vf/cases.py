"""descriptor -> live skfem objects (fresh objects for every call)."""
import numpy as np


def build_mesh(desc, tags=True):
    import dataclasses
    import skfem
    from .gen.meshes import CLS1, CLS2, KIND
    cls_name = desc['cls']
    kind = KIND[cls_name]
    p = np.array(desc['p'], dtype=np.float64)
    t = np.array(desc['t'], dtype=np.int64)
    # how the caller happens to hold the arrays (a function of the descriptor, so a case stays reproducible): C-ordered,
    # Fortran-ordered (e.g. the transpose of a points-by-coordinates table), non-contiguous views, 32-bit connectivity
    mem = (p.shape[1] + 3 * t.shape[1]) % 5
    if mem == 1:
        p, t = np.asfortranarray(p), np.asfortranarray(t)
    elif mem == 2:
        p = np.repeat(p, 2, axis=1)[:, ::2]
        t = np.repeat(t, 2, axis=1)[:, ::2]
    elif mem == 3:
        t = t.astype(np.int32)
        p = np.ascontiguousarray(p.T).T
    elif mem == 4:
        t = t.astype(np.uint64)            # unsigned connectivity (what some readers and np.unique(..., return_inverse) pipelines give)
    cls1 = getattr(skfem, CLS1[kind])
    kw = {}
    if desc.get('sort_t') is False:
        kw['sort_t'] = False
    if cls_name in CLS2.values():
        m1 = cls1(p, t, **kw)
        cls2 = getattr(skfem, cls_name)
        m = cls2.from_mesh(m1)
        cur = desc.get('curve')
        if cur and any(cur):
            nv = m.nvertices
            # smallest cell height of the mesh (measure / longest edge^(d-1)): displacements stay a
            # small fraction of it, so every curved cell remains a valid (invertible) image
            from .oracle import maps
            P = m.p[:, :nv]
            tt = m.t
            dd = P.shape[0]
            h = np.inf
            for k in range(tt.shape[1]):
                Q = P[:, tt[:, k]]
                hmax = max(np.linalg.norm(Q[:, a] - Q[:, b]) for a in range(Q.shape[1]) for b in range(a))
                hmin = min(np.linalg.norm(Q[:, a] - Q[:, b]) for a in range(Q.shape[1]) for b in range(a))
                h = min(h, maps.cell_measure(kind, Q) / hmax ** (dd - 1), hmin)
            newp = m.p.copy()
            d = newp.shape[0]
            for j in range(nv, newp.shape[1]):
                for a in range(d):
                    newp[a, j] += 0.06 * h * cur[(2 * j + a) % len(cur)] / 4.0
            m = dataclasses.replace(m, doflocs=newp)
    else:
        m = cls1(p, t, **kw)
    if tags and (desc.get('boundaries') or desc.get('subdomains')):
        m = apply_tags(m, desc)
    return m


def _is_edge(kind, a, b):
    from skfem import refdom
    rd = {'tri': refdom.RefTri, 'quad': refdom.RefQuad, 'tet': refdom.RefTet, 'hex': refdom.RefHex,
          'line': refdom.RefLine, 'wedge': refdom.RefWedge}[kind]
    if kind == 'line':
        return True
    edges = rd.edges if rd.edges else rd.facets
    return any(set(e) == {a, b} for e in edges)


def facet_index_map(m):
    """sorted vertex tuple -> facet index, read from the library's facet table"""
    return {tuple(sorted(int(v) for v in set(m.facets[:, f].tolist()))): f for f in range(m.facets.shape[1])}


def apply_tags(m, desc):
    """tags are stored in descriptors as cell index lists (subdomains) and facet index lists
    or {'facets': [...], 'ori': [...]} (boundaries) relative to the built mesh's numbering"""
    import dataclasses
    from skfem.generic_utils import OrientedBoundary
    b = None
    s = None
    if desc.get('boundaries'):
        b = {}
        for name, v in desc['boundaries'].items():
            if isinstance(v, dict):
                b[name] = OrientedBoundary(np.array(v['facets'], dtype=np.int32), np.array(v['ori'], dtype=np.int32))
            else:
                b[name] = np.array(v, dtype=np.int32)
    if desc.get('subdomains'):
        s = {name: np.array(v, dtype=np.int32) for name, v in desc['subdomains'].items()}
    return dataclasses.replace(m, _boundaries=b, _subdomains=s)


def build_element(desc):
    import skfem.element as E
    c = desc['cls']
    if c == 'ElementVector':
        inner = build_element(desc['of'])
        if 'dim' in desc:
            return E.ElementVector(inner, desc['dim'])
        return E.ElementVector(inner)
    if c == 'ElementDG':
        return E.ElementDG(build_element(desc['of']))
    if c == 'ElementComposite':
        # components given by identical descriptors are one shared instance in every other case (e * e is legal and common)
        import json as _json
        built, keys = [], []
        for d in desc['of']:
            k = _json.dumps(d, sort_keys=True)
            if k in keys and (desc.get('share') or len(k) % 2 == 0):
                built.append(built[keys.index(k)])
            else:
                built.append(build_element(d))
            keys.append(k)
        return E.ElementComposite(*built)
    cls = getattr(E, c)
    if 'p' in desc:
        return cls(desc['p'])
    return cls()


def resolve_tags(m, tags):
    """tags descriptor -> (mesh with tags, {'subdomains': {name: idx}, 'boundaries': {name: (facets, ori|None)}})

    tags = {'subdomains': {name: [cell indices]},
            'boundaries': {name: {'pool': 'boundary'|'interior'|'all', 'picks': [ints], 'ori': [ints]|None}}}
    facet picks are data-relative: index = pick mod len(pool); duplicates removed."""
    import dataclasses
    from skfem.generic_utils import OrientedBoundary
    sub = {}
    for name, ix in (tags.get('subdomains') or {}).items():
        arr = sorted(set(int(i) % m.nelements for i in ix))
        if len(ix) != len(set(ix)) and arr:
            arr = arr + arr[:1]                # the descriptor names an entity twice: so does the tag
        sub[name] = np.array(arr, dtype=np.int32)
    bnd = {}
    res_b = {}
    bf = m.boundary_facets()
    inner = np.setdiff1d(np.arange(m.nfacets), bf)
    for name, spec in (tags.get('boundaries') or {}).items():
        pool = {'boundary': bf, 'interior': inner, 'all': np.arange(m.nfacets)}[spec['pool']]
        if len(pool) == 0:
            pool = bf
        idx = []
        for k in spec['picks']:
            f = int(pool[int(k) % len(pool)])
            if f not in idx:
                idx.append(f)
        if spec.get('repeat') and idx:
            idx = idx + idx[:1]
        idx = np.array(idx, dtype=np.int32)
        if spec.get('ori') is not None:
            ori = np.array([int(spec['ori'][i % len(spec['ori'])]) % 2 for i in range(len(idx))], dtype=np.int32)
            ori[m.f2t[1, idx] == -1] = 0        # orientation 1 is only legal on interior facets
            if spec.get('twosided'):
                ii = m.f2t[1, idx] != -1
                idx = np.concatenate([idx, idx[ii]]).astype(np.int32)
                ori = np.concatenate([ori, 1 - ori[ii]]).astype(np.int32)
            bnd[name] = OrientedBoundary(idx, ori)
            res_b[name] = (idx, ori)
        else:
            bnd[name] = idx
            res_b[name] = (idx, None)
    m2 = dataclasses.replace(m, _boundaries=bnd or None, _subdomains=sub or None)
    return m2, dict(subdomains=sub, boundaries=res_b)


class LogCapture:
    """captures warnings logged by skfem.mesh.* during a block"""

    def __init__(self, name='skfem'):
        import logging
        self.logger = logging.getLogger(name)
        self.records = []

    def __enter__(self):
        import logging
        outer = self

        class H(logging.Handler):
            def emit(self, record):
                outer.records.append(record.getMessage())
        self.h = H(level=logging.WARNING)
        self.old = self.logger.level
        self.oldprop = self.logger.propagate
        self.logger.setLevel(logging.WARNING)
        self.logger.propagate = False
        self.logger.addHandler(self.h)
        return self

    def __exit__(self, *a):
        self.logger.removeHandler(self.h)
        self.logger.setLevel(self.old)
        self.logger.propagate = self.oldprop

    def has(self, word):
        return any(word in r for r in self.records)
