"""descriptor -> live skfem objects (fresh objects for every call)."""
import numpy as np


def build_mesh(desc, tags=True):
    import dataclasses
    import skfem
    from .gen.meshes import CLS1, CLS2, KIND
    cls_name = desc['cls']
    kind = KIND[cls_name]
    p = np.array(desc['p'], dtype=np.float64)
    t = np.array(desc['t'], dtype=np.int64)
    cls1 = getattr(skfem, CLS1[kind])
    kw = {}
    if desc.get('sort_t') is False:
        kw['sort_t'] = False
    if cls_name in CLS2.values():
        m1 = cls1(p, t, **kw)
        cls2 = getattr(skfem, cls_name)
        m = cls2.from_mesh(m1)
        cur = desc.get('curve')
        if cur and any(cur):
            nv = m.nvertices
            # shortest edge of the mesh (first-order vertices)
            P = m.p[:, :nv]
            tt = m.t
            h = min(np.linalg.norm(P[:, tt[a]] - P[:, tt[b]], axis=0).min()
                    for a in range(tt.shape[0]) for b in range(a)
                    if _is_edge(kind, a, b))
            newp = m.p.copy()
            d = newp.shape[0]
            for j in range(nv, newp.shape[1]):
                for a in range(d):
                    newp[a, j] += 0.06 * h * cur[(2 * j + a) % len(cur)] / 4.0
            m = dataclasses.replace(m, doflocs=newp)
    else:
        m = cls1(p, t, **kw)
    if tags and (desc.get('boundaries') or desc.get('subdomains')):
        m = apply_tags(m, desc)
    return m


def _is_edge(kind, a, b):
    from skfem import refdom
    rd = {'tri': refdom.RefTri, 'quad': refdom.RefQuad, 'tet': refdom.RefTet, 'hex': refdom.RefHex,
          'line': refdom.RefLine, 'wedge': refdom.RefWedge}[kind]
    if kind == 'line':
        return True
    edges = rd.edges if rd.edges else rd.facets
    return any(set(e) == {a, b} for e in edges)


def facet_index_map(m):
    """sorted vertex tuple -> facet index, read from the library's facet table"""
    return {tuple(sorted(int(v) for v in set(m.facets[:, f].tolist()))): f for f in range(m.facets.shape[1])}


def apply_tags(m, desc):
    """tags are stored in descriptors as cell index lists (subdomains) and facet index lists
    or {'facets': [...], 'ori': [...]} (boundaries) relative to the built mesh's numbering"""
    import dataclasses
    from skfem.generic_utils import OrientedBoundary
    b = None
    s = None
    if desc.get('boundaries'):
        b = {}
        for name, v in desc['boundaries'].items():
            if isinstance(v, dict):
                b[name] = OrientedBoundary(np.array(v['facets'], dtype=np.int32), np.array(v['ori'], dtype=np.int32))
            else:
                b[name] = np.array(v, dtype=np.int32)
    if desc.get('subdomains'):
        s = {name: np.array(v, dtype=np.int32) for name, v in desc['subdomains'].items()}
    return dataclasses.replace(m, _boundaries=b, _subdomains=s)


def build_element(desc):
    import skfem.element as E
    c = desc['cls']
    if c == 'ElementVector':
        inner = build_element(desc['of'])
        if 'dim' in desc:
            return E.ElementVector(inner, desc['dim'])
        return E.ElementVector(inner)
    if c == 'ElementDG':
        return E.ElementDG(build_element(desc['of']))
    if c == 'ElementComposite':
        return E.ElementComposite(*[build_element(d) for d in desc['of']])
    cls = getattr(E, c)
    if 'p' in desc:
        return cls(desc['p'])
    return cls()
