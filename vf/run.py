"""CLI: ./check <Cxx> quick|thorough [--replay FILE] [--only SUB[,SUB]] [--scale F] [--jobs N]

exit 0: property held on everything explored (KNOWN-FINDING lines possible)
exit 1: `VIOLATION property=<id> replay=<path>` printed for every new failure bucket
exit 2: harness error (never prints VIOLATION)
"""
import argparse
import glob
import hashlib
import json
import math
import os
import shutil
import subprocess
import sys
import tempfile
import time

from . import REPO, VERIF
from .core import abbreviate, load_prop, sig_key

PY = sys.executable


def load_findings(pid):
    path = os.path.join(VERIF, 'known_findings.json')
    if not os.path.exists(path):
        return []
    return [f for f in json.load(open(path))['findings'] if f['property'] == pid]


def finding_matches(f, sig):
    for k, v in f.get('match', {}).items():
        sv = sig.get(k)
        if isinstance(v, list):
            if sv not in v:
                return False
        elif sv != v:
            return False
    return True


def worker_env():
    env = dict(os.environ)
    env.update(PYTHONHASHSEED='0', OMP_NUM_THREADS='1', OPENBLAS_NUM_THREADS='1', MKL_NUM_THREADS='1',
               PYTHONDONTWRITEBYTECODE='1', VF_REPO=REPO, JAX_PLATFORMS='cpu',
               XLA_FLAGS='--xla_cpu_multi_thread_eigen=false intra_op_parallelism_threads=1',
               SKFEM_VERIF='1')
    env['PYTHONPATH'] = VERIF + os.pathsep + env.get('PYTHONPATH', '')
    return env


class Pool:
    def __init__(self, jobs, workdir, deadline):
        self.jobs = jobs
        self.workdir = workdir
        self.deadline = deadline
        self.k = 0

    def run(self, tasks, hard_timeout=None):
        """run tasks (dicts) through worker subprocesses; returns list of (task, result|None, status)"""
        pending = list(tasks)
        running = []
        done = []
        env = worker_env()
        while pending or running:
            now = time.time()
            while pending and len(running) < self.jobs:
                t = pending.pop(0)
                if now > self.deadline and t['mode'] == 'explore' and not t.get('shrink_key'):
                    done.append((t, None, 'budget'))
                    continue
                self.k += 1
                tf = os.path.join(self.workdir, f'task{self.k}.json')
                t['out'] = os.path.join(self.workdir, f'out{self.k}.json')
                json.dump(t, open(tf, 'w'))
                log = open(os.path.join(self.workdir, f'log{self.k}.txt'), 'w')
                p = subprocess.Popen([PY, '-m', 'vf.worker', tf], cwd=VERIF, env=env,
                                     stdout=log, stderr=subprocess.STDOUT)
                running.append((t, p, now, log))
            still = []
            for t, p, t0, log in running:
                rc = p.poll()
                limit = t.get('timeout') or hard_timeout
                if rc is None:
                    if limit and time.time() - t0 > limit:
                        p.kill()
                        p.wait()
                        log.close()
                        done.append((t, None, 'timeout'))
                    else:
                        still.append((t, p, t0, log))
                    continue
                log.close()
                if os.path.exists(t['out']):
                    try:
                        done.append((t, json.load(open(t['out'])), 'ok'))
                        continue
                    except Exception:
                        pass
                tail = open(log.name).read()[-2000:]
                done.append((t, dict(fatal=f'worker exit {rc}: {tail}'), 'crash'))
            running = still
            if running:
                time.sleep(0.05)
        return done


def validate_evidence(ev):
    """structural fallback + jsonschema through python3-vt when available"""
    cov = ev['coverage']
    assert isinstance(ev['property_id'], str) and ev['tier'] in ('quick', 'thorough')
    assert isinstance(ev['seed'], int) and ev['level'] == 'exploration'
    assert isinstance(cov['evaluations'], int) and cov['evaluations'] >= 1
    assert isinstance(cov['distinct_nontrivial'], int) and cov['distinct_nontrivial'] >= 2
    assert isinstance(cov['rule'], str) and isinstance(cov['samples'], list) and len(cov['samples']) >= 1
    assert isinstance(ev['wall_s'], float)


def main(argv=None):
    ap = argparse.ArgumentParser()
    ap.add_argument('prop')
    ap.add_argument('tier', nargs='?', default=os.environ.get('VERIF_TIER', 'quick'), choices=['quick', 'thorough'])
    ap.add_argument('--replay')
    ap.add_argument('--only')
    ap.add_argument('--scale', type=float, default=float(os.environ.get('VF_SCALE', '1')))
    ap.add_argument('--jobs', type=int, default=int(os.environ.get('VF_JOBS', '16')))
    ap.add_argument('--budget', type=float, default=None)
    ap.add_argument('--no-evidence', action='store_true')
    ap.add_argument('--no-shrink', action='store_true')
    a = ap.parse_args(argv)
    pid = a.prop.upper()
    t0 = time.time()
    try:
        seed = int(os.environ.get('VERIF_SEED', '1') or '1')
    except ValueError:
        seed = int(hashlib.sha256(os.environ['VERIF_SEED'].encode()).hexdigest()[:8], 16)
    tier = a.tier
    budget = a.budget or float(os.environ.get('VF_BUDGET', '420' if tier == 'quick' else '5400'))
    try:
        prop = load_prop(pid)
    except Exception as e:
        print(f'HARNESS-ERROR cannot load property module {pid}: {e!r}')
        return 2
    findings = load_findings(pid)
    workdir = tempfile.mkdtemp(prefix=f'vf-{pid}-')
    pool = Pool(a.jobs, workdir, t0 + budget)
    violations = []       # (sig, replay path, detail)
    known_lines = []
    harness_errors = []
    notes = []
    try:
        # ---------------------------------------------------------------- single replay
        if a.replay:
            rp = json.load(open(a.replay))
            sub = rp['sub']
            res = pool.run([dict(prop=pid, sub=sub, mode='replay', case=rp['case'], tier=tier, seed=seed)])[0][1]
            if res is None or res.get('fatal') or res.get('harness_errors'):
                print('HARNESS-ERROR', (res or {}).get('fatal') or (res or {}).get('harness_errors'))
                return 2
            fails = res['replay_failures']
            for fl in fails:
                print('FAIL', json.dumps(fl['sig']), '\n   ', fl['detail'][:600])
            unknown = [fl for fl in fails if not any(f['status'] == 'known' and finding_matches(f, fl['sig']) for f in findings)]
            for fl in fails:
                for f in findings:
                    if f['status'] == 'known' and finding_matches(f, fl['sig']):
                        print(f"KNOWN-FINDING: property={pid} {f['what']}")
            if unknown:
                print(f'VIOLATION property={pid} replay={a.replay}')
                return 1
            print('replay: property held' if not fails else 'replay: only known findings')
            return 0

        only = set(a.only.split(',')) if a.only else None
        # ---------------------------------------------------------------- committed replays
        tasks = []
        for path in sorted(glob.glob(os.path.join(VERIF, 'replays', pid, '*.json'))):
            rp = json.load(open(path))
            if only and rp['sub'] not in only:
                continue
            if rp['sub'] not in prop.subs:
                harness_errors.append(f'replay {path} names unknown sub-check {rp["sub"]}')
                continue
            tasks.append(dict(prop=pid, sub=rp['sub'], mode='replay', case=rp['case'], tier=tier, seed=seed,
                              _path=os.path.relpath(path, VERIF), _expect=rp.get('expect', 'pass'),
                              _finding=rp.get('finding'), timeout=600))
        n_replays = len(tasks)
        # ---------------------------------------------------------------- exploration shards
        plan = {}
        for name, sub in prop.subs.items():
            if only and name not in only:
                continue
            n = sub.quick if tier == 'quick' else sub.thorough
            if sub.kind == 'enumerate':
                shards = sub.max_shards
                per = 0
            else:
                n = max(1, int(round(n * a.scale)))
                shards = max(1, min(sub.max_shards, a.jobs, n // 8 or 1))
                per = int(math.ceil(n / shards))
            plan[name] = dict(n=n, shards=shards, per=per)
            for k in range(shards):
                tasks.append(dict(prop=pid, sub=name, mode='explore', tier=tier, seed=seed, shard=k,
                                  nshards=shards, n=per))
        # interleave so that every sub-check gets workers early (round-robin over shard index)
        rep = [t for t in tasks if t['mode'] == 'replay']
        exp = [t for t in tasks if t['mode'] == 'explore']
        exp.sort(key=lambda t: (t['shard'], t['sub']))
        results = pool.run(rep + exp)

        # ---------------------------------------------------------------- merge
        total_eval = 0
        rejected = 0
        nt = set()
        classes = {}
        samples = []
        skipped = {}
        per_sub = {}
        buckets = {}
        inconclusive = []
        known_hits = {}
        enumerated = {}
        for t, res, status in results:
            if status in ('budget', 'timeout'):
                inconclusive.append(f"{t['sub']}#{t.get('shard', 'replay')}:{status}")
                continue
            if res.get('fatal'):
                harness_errors.append(f"{t['sub']}: {res['fatal'][-1500:]}")
                continue
            for he in res.get('harness_errors', []):
                harness_errors.append(f"{he['sub']} at {he['where']}:\n{he['tb'][-1200:]}")
            if t['mode'] == 'replay':
                fails = res['replay_failures']
                path = t['_path']
                if t['_expect'] == 'known':
                    f = next((f for f in findings if f['id'] == t['_finding']), None)
                    if f is None:
                        harness_errors.append(f'replay {path} refers to unlisted finding {t["_finding"]}')
                        continue
                    m = [fl for fl in fails if finding_matches(f, fl['sig'])]
                    other = [fl for fl in fails if not any(g['status'] == 'known' and finding_matches(g, fl['sig']) for g in findings)]
                    if m and f['status'] == 'known':
                        line = f"KNOWN-FINDING: property={pid} {f['what']}"
                        if line not in known_lines:
                            known_lines.append(line)
                    elif not m:
                        notes.append(f'known finding {f["id"]} no longer reproduces with {path}')
                    for fl in other:
                        violations.append((fl['sig'], path, fl['detail']))
                else:
                    for fl in fails:
                        if any(g['status'] == 'known' and finding_matches(g, fl['sig']) for g in findings):
                            continue
                        violations.append((fl['sig'], path, fl['detail']))
                ps = per_sub.setdefault(t['sub'], dict(evaluations=0, nontrivial=0, replays=0))
                ps['replays'] += 1
                continue
            total_eval += res['evaluations']
            rejected += res['rejected']
            ps = per_sub.setdefault(t['sub'], dict(evaluations=0, nontrivial=0, replays=0))
            ps['evaluations'] += res['evaluations']
            if res.get('wall_s', 0) > ps.get('slowest_shard_s', 0):
                ps['slowest_shard_s'] = round(res['wall_s'], 1)
                ps['slowest_shard'] = t.get('shard')
            hs = set(t['sub'] + ':' + h for h in res['nt_hashes'])
            ps['nontrivial'] += len(hs - nt)
            nt |= hs
            if 'enumerated_total' in res:
                enumerated[t['sub']] = res['enumerated_total']
            for c, k in res['classes'].items():
                classes.setdefault(t['sub'], {})
                classes[t['sub']][c] = classes[t['sub']].get(c, 0) + k
            for s, k in res['skipped'].items():
                skipped[s] = skipped.get(s, 0) + k
            if res['samples'] and sum(1 for s in samples if s['sub'] == t['sub']) < 2:
                samples.append(dict(sub=t['sub'], case=abbreviate(res['samples'][0])))
            for fl in res['failures']:
                k = sig_key(fl['sig'])
                f = next((f for f in findings if f['status'] == 'known' and finding_matches(f, fl['sig'])), None)
                if f is not None:
                    known_hits[f['id']] = known_hits.get(f['id'], 0) + fl['count']
                    continue
                b = buckets.get(k)
                if b is None:
                    buckets[k] = dict(fl, task=t)
                else:
                    b['count'] += fl['count']
                    if fl['size'] < b['size']:
                        b.update(case=fl['case'], detail=fl['detail'], size=fl['size'], task=t)

        # ---------------------------------------------------------------- shrink new buckets
        found_dir = os.path.join(VERIF, 'evidence', 'found')
        if buckets:
            os.makedirs(found_dir, exist_ok=True)
            shr = []
            order = sorted(buckets.items(), key=lambda kv: kv[1]['size'])
            for k, b in order[:12]:
                sub = prop.subs[b['sig']['check']] if b['sig']['check'] in prop.subs else None
                if a.no_shrink or sub is None or sub.kind == 'enumerate':
                    continue
                t = dict(b['task'])
                t.pop('out', None)
                t.update(shrink_key=k, timeout=(90 if tier == 'quick' else 330))
                shr.append(t)
            pool.deadline = time.time() + 10**6
            sres = {t['shrink_key']: (res, st) for t, res, st in pool.run(shr)}
            for k, b in order:
                case, detail = b['case'], b['detail']
                r = sres.get(k)
                if r and r[1] == 'ok' and r[0].get('shrunk', {}).get('case') is not None:
                    sc = r[0]['shrunk']['case']
                    if len(json.dumps(sc)) <= b['size']:
                        case, detail = sc, r[0]['shrunk']['detail']
                h = hashlib.sha1(k.encode()).hexdigest()[:10]
                path = os.path.join('evidence', 'found', f'{pid}-{h}.json')
                json.dump(dict(property=pid, sub=b['sig']['check'], expect='pass', signature=b['sig'],
                               count=b['count'], detail=detail, case=case),
                          open(os.path.join(VERIF, path), 'w'), indent=1)
                violations.append((b['sig'], path, detail))

        # known findings without a replay file still announce themselves when hit by exploration
        for f in findings:
            if f['status'] == 'known' and known_hits.get(f['id']):
                line = f"KNOWN-FINDING: property={pid} {f['what']}"
                if line not in known_lines:
                    known_lines.append(line)

        wall = time.time() - t0
        ev = dict(property_id=pid, tier=tier, seed=seed, level='exploration',
                  coverage=dict(evaluations=total_eval + n_replays, distinct_nontrivial=len(nt), rule=prop.rule,
                                samples=samples[:8], per_subcheck=per_sub, classes=classes,
                                rejected_by_precondition=rejected, skipped_unsupported=skipped,
                                replays_run=n_replays, known_findings_hit=known_hits,
                                exhaustive=bool(enumerated) and all(s.kind == 'enumerate' for s in prop.subs.values()),
                                enumerated_domains=enumerated, inconclusive=inconclusive, plan=plan, notes=notes),
                  assumptions=prop.assumptions, wall_s=float(wall), violations=len(violations))
        if harness_errors:
            print('HARNESS-ERROR', len(harness_errors))
            for h in harness_errors[:2]:
                print(h[-1500:])
            return 2
        if not a.no_evidence and not only:
            try:
                validate_evidence(ev)
            except Exception as e:
                print('HARNESS-ERROR evidence does not validate:', repr(e), json.dumps(ev['coverage'])[:400])
                return 2
            os.makedirs(os.path.join(VERIF, 'evidence'), exist_ok=True)
            json.dump(ev, open(os.path.join(VERIF, 'evidence', f'{pid}.json'), 'w'), indent=1)
        for line in known_lines:
            print(line)
        print(f'{pid} {tier} seed={seed}: evaluations={total_eval} (+{n_replays} replays) distinct_nontrivial={len(nt)} '
              f'rejected={rejected} skipped={sum(skipped.values())} known_hits={sum(known_hits.values())} '
              f'inconclusive={len(inconclusive)} wall={wall:.1f}s')
        for name, ps in sorted(per_sub.items()):
            print(f'   {name:28s} evals={ps["evaluations"]:7d} nontrivial={ps["nontrivial"]:7d} replays={ps["replays"]} '
                  f'slowest shard {ps.get("slowest_shard")}: {ps.get("slowest_shard_s", 0)}s')
        for n_ in notes:
            print('note:', n_)
        if violations:
            seen = set()
            for sig, path, detail in violations:
                print('FAIL', json.dumps(sig), '\n    ', detail[:700].replace('\n', '\n     '))
                if path not in seen:
                    print(f'VIOLATION property={pid} replay={path}')
                    seen.add(path)
            return 1
        return 0
    finally:
        shutil.rmtree(workdir, ignore_errors=True)


if __name__ == '__main__':
    sys.exit(main())
