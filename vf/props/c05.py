"""C05 -- essential boundary conditions: condense / enforce / penalize / expansion / mpc."""
import hashlib

import numpy as np
from hypothesis import strategies as st

from ..core import Prop, Sub

VAL = st.sampled_from([1.0, -1.0, 0.5, -0.5, 0.25, 2.0, -2.0, 0.125, 3.0, 0.0])   # 0.0 = explicit stored zero
XV = st.sampled_from([0.0, 1.0, -1.0, 0.5, 2.5, -3.0, 0.125, 7.0])


@st.composite
def system(draw, tier, strong=False, symmetric=False, nmax=None):
    n = draw(st.integers(1, nmax or (40 if tier == 'thorough' else 16)))
    nd = draw(st.integers(0, n))
    perm = draw(st.permutations(range(n)))
    D = list(perm[:nd])                   # arbitrary order
    Dset = set(D)
    entries = {}
    for i in range(n):
        k = draw(st.integers(0, min(n, 4)))
        cols = draw(st.lists(st.integers(0, n - 1), min_size=k, max_size=k, unique=True))
        for j in cols:
            entries[(i, j)] = draw(VAL)
    if symmetric:
        for (i, j), v in list(entries.items()):
            entries[(j, i)] = v
    # kept rows: diagonally dominant (well-posed kept block); constrained rows: anything,
    # including rows that store nothing at all / no diagonal / explicit zeros
    for i in range(n):
        if i in Dset and not symmetric:
            continue
        off = sum(abs(v) for (r, c), v in entries.items() if r == i and c != i)
        entries[(i, i)] = (2.0 if strong else 1.0) * off + 1.0
    if symmetric:
        for i in Dset:
            if draw(st.booleans()):
                entries.pop((i, i), None)
    b = draw(st.lists(XV, min_size=n, max_size=n))
    x = draw(st.lists(XV, min_size=n, max_size=n))
    fmt = draw(st.sampled_from(['csr', 'csr', 'csr_unsorted', 'csc']))
    return dict(n=n, D=[int(v) for v in D], entries=[[int(i), int(j), v] for (i, j), v in sorted(entries.items())],
                b=b, x=x, fmt=fmt)


@st.composite
def case_basic(draw, tier):
    s = draw(system(tier))
    s.update(spec=draw(st.sampled_from(['D', 'I', 'I_unsorted'])),
             xmode=draw(st.sampled_from(['given', 'given', 'none'])),
             overwrite=draw(st.booleans()),
             diag=draw(st.sampled_from([1.0, 1.0, 2.0, 1e3, -1.0, 0.5])),
             bmode=draw(st.sampled_from(['vector', 'vector', 'none'])),
             eps=draw(st.sampled_from([None, 1e-10, 1e-12, 1e-8])),
             seedperm=draw(st.integers(0, 10**6)),
             cplx=draw(st.integers(0, 3)) == 0,
             # prescribed values in small units (1e-9-ish, exactly 2^-30 times the drawn numbers): as good as any other values
             xscale=draw(st.sampled_from([0, 0, 0, -30, 20])))
    return s


def zval(c, i, j, v):
    """entry value: complex systems (Helmholtz-type) multiply by unit-ish complex factors that keep the rows dominant"""
    if not c.get('cplx'):
        return v
    return v * ((1 + 0.5j) if (i + j) % 2 == 0 else (1 - 0.25j))


def build_matrix(c, fmt=None):
    import scipy.sparse as sp
    n = c['n']
    fmt = fmt or c['fmt']
    rows = np.array([e[0] for e in c['entries']], dtype=np.int32)
    cols = np.array([e[1] for e in c['entries']], dtype=np.int32)
    vals = np.array([zval(c, *e) for e in c['entries']], dtype=complex if c.get('cplx') else float)
    if fmt.startswith('csr'):
        # build CSR by hand so that explicit zeros and (optionally) unsorted column order survive
        order = np.lexsort((cols if fmt == 'csr' else -cols, rows))
        rows, cols, vals = rows[order], cols[order], vals[order]
        indptr = np.zeros(n + 1, dtype=np.int32)
        np.add.at(indptr, rows + 1, 1)
        indptr = np.cumsum(indptr).astype(np.int32)
        A = sp.csr_matrix((vals, cols, indptr), shape=(n, n))
        return A
    order = np.lexsort((rows, cols))
    rows, cols, vals = rows[order], cols[order], vals[order]
    indptr = np.zeros(n + 1, dtype=np.int32)
    np.add.at(indptr, cols + 1, 1)
    indptr = np.cumsum(indptr).astype(np.int32)
    return sp.csc_matrix((vals, rows, indptr), shape=(n, n))


def dense(c):
    A = np.zeros((c['n'], c['n']), dtype=complex if c.get('cplx') else float)
    for i, j, v in c['entries']:
        A[i, j] = zval(c, i, j, v)
    return A


def h(*arrs):
    m = hashlib.sha256()
    for a in arrs:
        a = np.ascontiguousarray(a)
        m.update(str(a.dtype).encode() + str(a.shape).encode() + a.tobytes())
    return m.hexdigest()


def mat_hash(A):
    return h(A.data, A.indices, A.indptr)


def canon(A):
    """hash of the matrix *content* (stored entries incl. explicit zeros, sorted), used where a
    SciPy solver is entitled to normalise the index order of its argument in place"""
    C = A.tocoo()
    order = np.lexsort((C.col, C.row))
    return h(np.asarray(C.row[order], dtype=np.int64), np.asarray(C.col[order], dtype=np.int64), C.data[order]) + str(A.shape) + A.format


def features(c):
    Ad = dense(c)
    D = c['D']
    stored = {}
    for i, j, v in c['entries']:
        stored.setdefault(i, []).append(j)
    empty = any(i not in stored for i in D)
    nodiag = any(i in stored and i not in stored[i] for i in D)
    unsym = not np.array_equal(Ad != 0, (Ad != 0).T)
    xnz = any(c['x'][i] != 0 for i in D)
    return empty, nodiag, unsym, xnz


def split(c):
    n = c['n']
    D = np.array(c['D'], dtype=np.int64)
    I = np.setdiff1d(np.arange(n), D)
    return I, D


def body_basic(c, ctx):
    from skfem.utils import condense, enforce, penalize, solve
    n = c['n']
    Ad = dense(c)
    b0 = np.array(c['b'], dtype=float)
    x0 = np.array(c['x'], dtype=float)
    if c.get('cplx'):
        b0 = b0 * (1 + 0.25j)
        x0 = x0 * (1 - 0.5j)
    if c.get('xscale'):
        x0 = x0 * 2.0 ** c['xscale']
        if c['xscale'] < 0:
            b0 = b0 * 2.0 ** c['xscale']          # data of the same small size: the comparison scales below follow it
    I, D = split(c)
    empty, nodiag, unsym, xnz = features(c)
    ctx.cls(c['fmt'], 'spec:' + c['spec'], 'complex' if c.get('cplx') else 'real', 'emptyrow' if empty else 'no-emptyrow', 'nodiag' if nodiag else 'diag',
            'nD=0' if len(D) == 0 else ('nD=n' if len(D) == n else 'mixed'))
    ctx.nt(empty or nodiag or c['fmt'] == 'csr_unsorted' or unsym or xnz)
    rng = np.random.RandomState(c['seedperm'])
    if c['spec'] == 'D':
        kw = lambda: dict(D=D.copy())                      # noqa
    elif c['spec'] == 'I':
        kw = lambda: dict(I=I.copy())                      # noqa
    else:
        Iu = I.copy()
        rng.shuffle(Iu)
        kw = lambda: dict(I=Iu.copy())                     # noqa
    xD = x0 if c['xmode'] == 'given' else np.zeros(n, dtype=b0.dtype)
    xarg = (lambda: x0.copy()) if c['xmode'] == 'given' else (lambda: None)
    scale = 1.0 + np.abs(Ad).max() * (1 + np.abs(x0).max()) + np.abs(b0).max()
    sig = dict(fmt=c['fmt'], spec=c['spec'])

    # reference solution by dense algebra
    yref = xD.copy()
    if len(I):
        yref[I] = np.linalg.solve(Ad[np.ix_(I, I)], b0[I] - Ad[np.ix_(I, D)] @ xD[D])

    # ---------------------------------------------------------------- condense
    A = build_matrix(c)
    b = b0.copy()
    xa = xarg()
    k = kw()
    before = (mat_hash(A), h(b), h(xa) if xa is not None else None, h(*k.values()))
    out = condense(A, b, x=xa, **k)
    after = (mat_hash(A), h(b), h(xa) if xa is not None else None, h(*k.values()))
    if before != after:
        ctx.fail('operands_condense', 'condense modified an argument', **sig)
    AII, bI, xr, Ir = out
    Iuse = k.get('I', I)
    if len(Iuse):
        ctx.close('condense_reduced_matrix', AII.toarray(), Ad[np.ix_(Iuse, Iuse)], 0.0, **sig)
        ctx.close('condense_reduced_rhs', bI, b0[Iuse] - Ad[np.ix_(Iuse, D)] @ xD[D], 1e-13, scale, **sig)
    if len(I):
        hb = (canon(AII), h(bI), h(xr))
        y = solve(AII, bI, xr, Ir)
        if (canon(AII), h(bI), h(xr)) != hb:
            ctx.fail('operands_solve', 'solve modified an argument', **sig)
        if not np.array_equal(y[D], xD[D]):
            ctx.fail('expand_constrained_values', f'y[D]={y[D][:5]} x[D]={xD[D][:5]}', **sig)
        ctx.close('condense_solution', y, yref, 1e-11, scale * (1 + np.abs(yref).max()), **sig)
        ctx.close('condense_residual', (Ad @ y - b0)[I], 0 * I, 1e-11, scale * (1 + np.abs(yref).max()), **sig)
        # without expand
        out2 = condense(A, b, x=xarg(), expand=False, **kw())
        if not (isinstance(out2, tuple) and len(out2) == 2):
            ctx.fail('condense_noexpand_shape', str(type(out2)), **sig)
        else:
            ctx.close('condense_noexpand', out2[1], bI, 0.0, **sig)
    # matrix only
    A1 = condense(A, **kw(), expand=False)
    if len(Iuse):
        ctx.close('condense_matrix_only', A1.toarray(), Ad[np.ix_(Iuse, Iuse)], 0.0, **sig)

    # ---------------------------------------------------------------- enforce / penalize (CSR only)
    if not c['fmt'].startswith('csr'):
        return
    for ow in ([False, True] if c['overwrite'] else [False]):
        A = build_matrix(c)
        b = b0.copy()
        xa = xarg()
        k = kw()
        before = (mat_hash(A), h(b), h(xa) if xa is not None else None, h(*k.values()))
        if c['bmode'] == 'vector':
            Ae, be = enforce(A, b, x=xa, diag=c['diag'], overwrite=ow, **k)
        else:
            Ae = enforce(A, x=None, diag=c['diag'], overwrite=ow, **k)
            be = None
        after = (mat_hash(A), h(b), h(xa) if xa is not None else None, h(*k.values()))
        sg = dict(sig, overwrite=ow)
        if not ow and before != after:
            ctx.fail('operands_enforce', 'enforce without overwrite modified an argument', **sg)
        if ow and (Ae is not A or (be is not None and be is not b)):
            ctx.fail('overwrite_identity', 'overwrite=True did not return the operands themselves', **sg)
        if h(*k.values()) != before[3] or (xa is not None and h(xa) != before[2]):
            ctx.fail('operands_enforce_index', 'index array or x modified', **sg)
        Aed = Ae.toarray()
        want = Ad.copy()
        want[D, :] = 0.0
        want[D, D] = c['diag']
        if not np.array_equal(Aed[D], want[D]):
            bad = [int(i) for i in D if not np.array_equal(Aed[i], want[i])][:4]
            ctx.fail('enforce_constrained_rows', f'rows {bad} are not diag*e_i: e.g. {Aed[bad[0]].tolist()}', **sg)
        if not np.array_equal(Aed[I], Ad[I]):
            bad = [int(i) for i in I if not np.array_equal(Aed[i], Ad[i])][:4]
            ctx.fail('enforce_other_rows', f'rows {bad} changed', **sg)
        if be is not None:
            if not np.array_equal(be[D], xD[D]) or not np.array_equal(be[I], b0[I]):
                ctx.fail('enforce_rhs', '', **sg)
            if c['diag'] != 0 and not ctx.failures and len(I):
                rhs = be.copy()
                rhs[D] = rhs[D] * c['diag']   # documented: rhs = x_i with unit diagonal; general diag scales the row
                ye = np.linalg.solve(Aed, be)
                want_y = yref.copy()
                want_y[D] = xD[D] / c['diag']
                if c['diag'] == 1.0:
                    ctx.close('enforce_solution', ye, yref, 1e-10, scale * (1 + np.abs(yref).max()), **sg)
    # penalize
    dD = Ad[D, D] if len(D) else np.array([])
    eps = c['eps']
    if eps is None and (len(D) == 0 or np.abs(dD).max() == 0):
        return   # default epsilon is defined through ||diag(A)[D]||_inf: precondition
    if len(D) == 0:
        return
    for ow in ([False, True] if c['overwrite'] else [False]):
        A = build_matrix(c)
        b = b0.copy()
        xa = xarg()
        k = kw()
        before = (mat_hash(A), h(b), h(xa) if xa is not None else None, h(*k.values()))
        Ap, bp = penalize(A, b, x=xa, epsilon=eps, overwrite=ow, **k)
        after = (mat_hash(A), h(b), h(xa) if xa is not None else None, h(*k.values()))
        sg = dict(sig, overwrite=ow)
        if not ow and before != after:
            ctx.fail('operands_penalize', 'penalize without overwrite modified an argument', **sg)
        if ow and (Ap is not A or bp is not b):
            ctx.fail('overwrite_identity_penalize', '', **sg)
        Apd = Ap.toarray()
        if not np.array_equal(Apd[I], Ad[I]) or not np.array_equal(bp[I], b0[I]):
            ctx.fail('penalize_other_rows', '', **sg)
        offd = Apd[D].copy()
        offd[np.arange(len(D)), D] = Ad[D, D]
        if not np.array_equal(offd, Ad[D]):
            ctx.fail('penalize_offdiagonal', 'off-diagonal entries of penalised rows changed', **sg)
        e = eps if eps is not None else 1e-10 / np.abs(dD).max()
        if len(I):
            # row-scale the penalised equations by epsilon before the dense solve: the same
            # system, but well conditioned, so the comparison sees the penalty error only
            As, bs = Apd.copy(), bp.copy()
            As[D] *= e
            bs[D] *= e
            yp = np.linalg.solve(As, bs)
            tol = 50 * abs(e) * (1 + np.abs(Ad).sum(1).max()) * (1 + np.abs(yref).max()) * n + 1e-10
            ctx.close('penalize_solution', yp, yref, tol, 1.0 + np.abs(yref).max(), **sg)
            want_d = 1.0 / e
            if not np.allclose(Apd[D, D], want_d, rtol=1e-14, atol=0):
                ctx.fail('penalize_diagonal', f'{Apd[D, D][:3]} vs {want_d}', **sg)


# -------------------------------------------------------------------------- eigen
@st.composite
def case_eigen(draw, tier):
    s = draw(system(tier, symmetric=True, nmax=12 if tier == 'quick' else 24))
    n = s['n']
    m = {}
    for i in range(n):
        m[(i, i)] = 2.0 + draw(st.sampled_from([0.0, 0.5, 1.0]))
    k = draw(st.integers(0, n))
    for _ in range(k):
        i, j = draw(st.integers(0, n - 1)), draw(st.integers(0, n - 1))
        if i != j:
            v = draw(st.sampled_from([0.25, -0.25, 0.125]))
            m[(i, j)] = v
            if draw(st.integers(0, 3)) != 0:
                m[(j, i)] = v            # mostly symmetric, sometimes not (reduction must not transpose)
    s['mentries'] = [[i, j, v] for (i, j), v in sorted(m.items())]
    s['spec'] = draw(st.sampled_from(['D', 'I']))
    return s


def body_eigen(c, ctx):
    import scipy.linalg as sla
    from skfem.utils import condense, enforce, solve
    n = c['n']
    Ad = dense(c)
    Md = dense(dict(n=n, entries=c['mentries']))
    I, D = split(c)
    x0 = np.array(c['x'], dtype=float)
    sym = np.array_equal(Md, Md.T)
    ctx.cls('Msym' if sym else 'Munsym', c['fmt'])
    ctx.nt(len(D) > 0 and len(I) > 0)
    if len(I) == 0:
        return
    sig = dict(fmt=c['fmt'], msym=sym)
    A = build_matrix(c)
    M = build_matrix(dict(n=n, entries=c['mentries'], fmt=c['fmt']))
    kw = dict(D=D.copy()) if c['spec'] == 'D' else dict(I=I.copy())
    hb = (mat_hash(A), mat_hash(M))
    AII, MII, xr, Ir = condense(A, M, x=x0.copy(), **kw)
    if (mat_hash(A), mat_hash(M)) != hb:
        ctx.fail('operands_condense_eigen', '', **sig)
    ctx.close('condense_eigen_A', AII.toarray(), Ad[np.ix_(I, I)], 0.0, **sig)
    ctx.close('condense_eigen_M', MII.toarray(), Md[np.ix_(I, I)], 0.0, **sig)
    # solve with a dense solver closure: eigenvectors are expanded to x on D

    def dense_solver(K, Mm, **kwargs):
        w, V = sla.eig(K.toarray(), Mm.toarray())
        order = np.argsort(w.real, kind='stable')
        return w[order], V[:, order]
    L, Y = solve(AII, MII, xr, Ir, solver=dense_solver)
    if Y.shape != (n, len(I)):
        ctx.fail('solve_eigen_shape', str(Y.shape), **sig)
    else:
        for kcol in range(Y.shape[1]):
            if not np.array_equal(Y[D, kcol], x0[D].astype(Y.dtype)):
                ctx.fail('solve_eigen_expand', 'eigenvector not equal to x on constrained indices', **sig)
                break
        wref, Vref = dense_solver(AII, MII)
        ctx.close('solve_eigen_vectors', Y[I], Vref, 0.0, **sig)
    # enforce with a matrix right-hand side (CSR only)
    if c['fmt'].startswith('csr'):
        hb = (mat_hash(A), mat_hash(M))
        Ae, Me = enforce(A, M, D=D.copy())
        if (mat_hash(A), mat_hash(M)) != hb or Ae is A or Me is M:
            ctx.fail('operands_enforce_eigen', 'enforce(A, M) without overwrite modified or returned an operand', **sig)
        from skfem.utils import penalize
        if len(D) and np.abs(Ad[D, D]).max() > 0:
            Ap, Mp = penalize(A, M, D=D.copy())
            if (mat_hash(A), mat_hash(M)) != hb or Ap is A or Mp is M:
                ctx.fail('operands_penalize_eigen', 'penalize(A, M) without overwrite modified or returned an operand', **sig)
            if not np.array_equal(Mp.toarray(), Md):
                ctx.fail('penalize_eigen_mass', 'mass matrix changed', **sig)
        A2, M2 = build_matrix(c), build_matrix(dict(n=n, entries=c['mentries'], fmt=c['fmt']))
        Ao, Mo = enforce(A2, M2, D=D.copy(), overwrite=True)
        if Ao is not A2 or Mo is not M2:
            ctx.fail('overwrite_identity_eigen', '', **sig)
        if not np.array_equal(Ao.toarray(), Ae.toarray()) or not np.array_equal(Mo.toarray(), Me.toarray()):
            ctx.fail('overwrite_differs_eigen', '', **sig)
        Med = Me.toarray()
        Aed = Ae.toarray()
        if np.any(Med[D] != 0):
            ctx.fail('enforce_eigen_mass_rows', 'constrained rows of the mass matrix do not vanish', **sig)
        if not np.array_equal(Med[I], Md[I]) or not np.array_equal(Aed[I], Ad[I]):
            ctx.fail('enforce_eigen_other_rows', '', **sig)
    if c['fmt'].startswith('csr') and sym and np.array_equal(Ad, Ad.T):
        if np.any(Med[D] != 0):
            ctx.fail('enforce_eigen_mass_rows', 'constrained rows of the mass matrix do not vanish', **sig)
        if not np.array_equal(Med[I], Md[I]) or not np.array_equal(Aed[I], Ad[I]):
            ctx.fail('enforce_eigen_other_rows', '', **sig)
        want = np.zeros((len(D), n))
        want[np.arange(len(D)), D] = 1.0
        if not np.array_equal(Aed[D], want):
            ctx.fail('enforce_eigen_constrained_rows', '', **sig)
        if not ctx.failures:
            w = sla.eig(Aed, Med, right=False)
            fin = np.sort(w[np.isfinite(w) & (np.abs(w) < 1e12)].real)
            wr = np.sort(sla.eigh(Ad[np.ix_(I, I)], Md[np.ix_(I, I)], eigvals_only=True))
            if len(fin) != len(wr):
                ctx.fail('enforce_eigen_count', f'{len(fin)} finite eigenvalues, expected {len(wr)}', **sig)
            else:
                ctx.close('enforce_eigen_values', fin, wr, 1e-8, 1 + np.abs(wr).max(), **sig)


# -------------------------------------------------------------------------- mpc
@st.composite
def case_mpc(draw, tier):
    s = draw(system(tier, strong=True, nmax=14 if tier == 'quick' else 30))
    n = s['n']
    # all rows dominant for mpc (the constraint rows are kept equations for M)
    ent = {(i, j): v for i, j, v in s['entries']}
    for i in range(n):
        off = sum(abs(v) for (r, c), v in ent.items() if r == i and c != i)
        ent[(i, i)] = 2.0 * off + 1.0
    s['entries'] = [[i, j, v] for (i, j), v in sorted(ent.items())]
    perm = draw(st.permutations(range(n)))
    ns = draw(st.integers(0, n // 2))
    nm = draw(st.integers(0 if ns == 0 else 1, max(1, n - ns))) if n - ns > 0 else 0
    nm = min(nm, n - ns)
    if nm == 0:
        ns = 0
    S = list(perm[:ns])
    M = list(perm[ns:ns + nm])
    T = []
    for r in range(ns):
        if draw(st.integers(0, 5)) > 0:
            T.append([r, draw(st.integers(0, nm - 1)), draw(st.sampled_from([1.0, -1.0, 0.5, -0.5, 0.25]))])
    g = [draw(XV) for _ in range(ns)]
    s.update(S=[int(v) for v in S], M=[int(v) for v in M], T=T, g=g,
             tmode=draw(st.sampled_from(['given', 'given', 'default'])),
             gmode=draw(st.sampled_from(['given', 'given', 'default'])))
    return s


def body_mpc(c, ctx):
    import scipy.sparse as sp
    from skfem.utils import mpc, solve
    n = c['n']
    Ad = dense(c)
    b0 = np.array(c['b'], dtype=float)
    S = np.array(c['S'], dtype=np.int64)
    M = np.array(c['M'], dtype=np.int64)
    ns, nm = len(S), len(M)
    if c['tmode'] == 'given':
        Td = np.zeros((ns, nm))
        for r, cc, v in c['T']:
            Td[r, cc] = v
        T = sp.csr_matrix(Td)
    else:
        Td = np.eye(ns, nm)
        T = None
    g = np.array(c['g'], dtype=float) if c['gmode'] == 'given' else None
    gd = g if g is not None else np.zeros(ns)
    ctx.cls(f'tmode:{c["tmode"]}', f'gmode:{c["gmode"]}', 'nS=0' if ns == 0 else 'nS>0')
    ctx.nt(ns > 0 and (c['gmode'] == 'given' and np.any(gd != 0)))
    sig = dict(tmode=c['tmode'], g=bool(np.any(gd != 0)))
    A = build_matrix(c)
    b = b0.copy()
    hb = (mat_hash(A), h(b), h(S), h(M), mat_hash(T) if T is not None else None, h(g) if g is not None else None)
    out = mpc(A, b, S=S if ns else None, M=M if nm else None, T=T, g=g)
    ha = (mat_hash(A), h(b), h(S), h(M), mat_hash(T) if T is not None else None, h(g) if g is not None else None)
    if hb != ha:
        ctx.fail('operands_mpc', 'mpc modified an argument', **sig)
    # is the reduced system solvable? (dense reference of the same elimination)
    U = np.setdiff1d(np.arange(n), np.concatenate((M, S)))
    UM = np.concatenate((U, M)).astype(int)
    E = np.zeros((n, len(UM)))          # y = E z + g0
    for k_, i in enumerate(UM):
        E[i, k_] = 1.0
    for r in range(ns):
        for cc in range(nm):
            E[S[r], len(U) + cc] += Td[r, cc]
    g0 = np.zeros(n)
    g0[S] = gd
    Bref = Ad[UM] @ E
    if np.linalg.cond(Bref) > 1e8:
        return
    zref = np.linalg.solve(Bref, b0[UM] - Ad[UM] @ g0)
    yref = E @ zref + g0
    y = solve(*out)
    scale = 1 + np.abs(Ad).max() + np.abs(b0).max() + np.abs(yref).max()
    ctx.close('mpc_constraint', y[S], Td @ y[M] + gd, 1e-11, scale, **sig)
    ctx.close('mpc_equations', (Ad @ y - b0)[UM], np.zeros(len(UM)), 1e-10, scale * (1 + np.abs(Ad).sum(1).max()), **sig)
    ctx.close('mpc_solution', y, yref, 1e-9, scale, **sig)


# -------------------------------------------------------------------------- DOF collections
@st.composite
def case_views(draw, tier):
    from ..gen import meshes as gm
    desc = draw(gm.mesh(kinds=('tri', 'quad', 'tet'), max_cells=12, max_cells_3d=6, allow_holes=False))
    kind = gm.mesh_kind(desc)
    el = draw(st.sampled_from({'tri': ['ElementTriP1', 'ElementTriP2', 'ElementTriMini'],
                               'quad': ['ElementQuad1', 'ElementQuad2'],
                               'tet': ['ElementTetP1', 'ElementTetP2']}[kind]))
    return dict(mesh=desc, elem={'cls': el}, picks=draw(st.lists(st.integers(0, 10**6), min_size=2, max_size=2)),
                how=draw(st.sampled_from(['view', 'dict', 'array', 'array_unsorted'])),
                x=draw(st.lists(XV, min_size=4, max_size=4)))


def body_views(c, ctx):
    from skfem import BilinearForm, CellBasis, LinearForm
    from skfem.helpers import dot, grad
    from skfem.utils import condense, enforce, solve
    from ..cases import build_element, build_mesh
    m = build_mesh(c['mesh'])
    basis = CellBasis(m, build_element(c['elem']))
    A = BilinearForm(lambda u, v, w: dot(grad(u), grad(v)) + u * v).assemble(basis)
    b = LinearForm(lambda v, w: 1.0 * v).assemble(basis)
    bf = m.boundary_facets()
    rng = np.random.RandomState(c['picks'][0])
    k1 = rng.randint(1, len(bf) + 1)
    F1 = rng.choice(bf, k1, replace=False)
    F2 = rng.choice(bf, rng.randint(1, len(bf) + 1), replace=False)
    v1, v2 = basis.get_dofs(F1), basis.get_dofs(F2)
    Dref = np.unique(np.concatenate([v1.flatten(), v2.flatten()])) if c['how'] == 'dict' else v1.flatten()
    x = np.resize(np.array(c['x']), basis.N).astype(float)
    ctx.cls(c['how'], c['elem']['cls'])
    ctx.nt(c['how'] in ('dict', 'view', 'array_unsorted'))
    if c['how'] == 'view':
        Darg = v1
    elif c['how'] == 'dict':
        Darg = {'a': v1, 'b': v2}
    elif c['how'] == 'array':
        Darg = Dref.copy()
    else:
        Darg = Dref.copy()
        rng.shuffle(Darg)
    sig = dict(how=c['how'])
    Iref = np.setdiff1d(np.arange(basis.N), Dref)
    Ad = A.toarray()
    yref = x.copy()
    if len(Iref):
        yref[Iref] = np.linalg.solve(Ad[np.ix_(Iref, Iref)], b[Iref] - Ad[np.ix_(Iref, Dref)] @ x[Dref])
        y = solve(*condense(A, b, x=x.copy(), D=Darg))
        ctx.close('views_condense', y, yref, 1e-9, 1 + np.abs(yref).max(), **sig)
        if not np.array_equal(y[Dref], x[Dref]):
            ctx.fail('views_constrained_values', '', **sig)
        Ae, be = enforce(A, b, x=x.copy(), D=Darg)
        ye = np.linalg.solve(Ae.toarray(), be)
        ctx.close('views_enforce', ye, yref, 1e-9, 1 + np.abs(yref).max(), **sig)
        # the same split given the other way round
        y2 = solve(*condense(A, b, x=x.copy(), I=Iref.copy()))
        ctx.close('views_condense_I', y2, yref, 1e-9, 1 + np.abs(yref).max(), **sig)


PROP = Prop(
    'C05', 'condense / enforce / penalize / expansion / multipoint constraints',
    rule=('random sparse systems n=1..40 built entry by entry (empty rows, missing diagonals and explicit zeros in '
          'constrained rows, unsymmetric patterns, sorted/unsorted CSR, CSC), kept block diagonally dominant by '
          'construction; split given as D, I or shuffled I; x given or absent; overwrite on/off; diag; penalty; dense '
          'NumPy algebra is the oracle. Plus eigen-reduction, multipoint constraints, and DofsView/dict collections on '
          'assembled systems. Non-trivial: a constrained row stores no entry or no diagonal, or unsorted/unsymmetric '
          'pattern, or x[D] != 0 (basic); both sets non-empty (eigen); non-zero g with slaves (mpc); view/dict/unsorted '
          'collection (views)'),
    assumptions=['enforce/penalize receive CSR matrices (they read indptr); condense/solve/mpc also CSC; scipy sparse arrays are outside the documented spmatrix domain',
                 'penalize with its default epsilon only when ||diag(A)[D]||_inf > 0 (the default is defined through it)',
                 'index sets contain no duplicates',
                 'mpc: one non-zero per row of T, all rows strictly diagonally dominant, so the reduced system is well-posed; the slave equations are dropped as documented',
                 'the enforce solution is compared for diag == 1 (other values rescale the constrained unknowns by definition)'],
    subs=[Sub('basic', body_basic, strategy=case_basic, quick=4000, thorough=80000),
          Sub('eigen', body_eigen, strategy=case_eigen, quick=800, thorough=12000),
          Sub('mpc', body_mpc, strategy=case_mpc, quick=1200, thorough=20000),
          Sub('views', body_views, strategy=case_views, quick=300, thorough=4000)],
    design_ref='DESIGN.md section 6, C05')
