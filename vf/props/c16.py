"""C16 -- threaded assembly equals serial assembly under every schedule.

The harness owns the schedule: the integrand callback (public API) identifies its local pair (i, j)
from the identity of the DiscreteField objects it receives, parks the calling worker thread on a
condition variable, and a scheduler thread releases parked workers one at a time.  Decisions are
taken only at quiescence (every live worker is parked), so a schedule -- a sequence of choices
"release the k-th parked worker" -- is replayed deterministically, and all schedules of a small
configuration can be enumerated by depth-first search over the observed branching.
"""
import hashlib
import threading
import time

import numpy as np
from hypothesis import strategies as st

from ..core import HarnessError, Prop, Sub

ELEMS = {
    'tri': ['ElementTriP0', 'ElementTriP1', 'ElementTriCR', 'ElementTriMini', 'ElementTriRT0'],
    'quad': ['ElementQuad0', 'ElementQuad1', 'ElementQuadRT0'],
    'line': ['ElementLineP0', 'ElementLineP1', 'ElementLineP2', 'ElementLineMini'],
    'tet': ['ElementTetP0', 'ElementTetP1'],
}
MESH = {'tri': ('MeshTri', 1), 'quad': ('MeshQuad', 1), 'line': ('MeshLine', 2), 'tet': ('MeshTet', 0)}


OBSERVED_WORKERS = {}        # (Nu, Nv, nthreads) -> number of workers that presented work when the barrier fell back


class Scheduler:
    def __init__(self, choices, expect_workers, baseline):
        self.fell_back = False
        self.cv = threading.Condition()
        self.parked = {}            # thread -> pair
        self.choices = list(choices)
        self.branching = []         # number of options at every decision
        self.log = []               # (worker id, pair) in release order
        self.seen = {}              # thread -> small integer id in order of first appearance
        self.expect = expect_workers
        self.baseline = baseline
        self.stop = False
        self.error = None
        self.thread = threading.Thread(target=self.run, name='vf-scheduler', daemon=True)
        self.concurrent_same_pair = False

    def enter(self, pair):
        me = threading.current_thread()
        with self.cv:
            if pair in self.parked.values():
                self.concurrent_same_pair = True
            self.parked[me] = pair
            if me not in self.seen:
                self.seen[me] = len(self.seen)
            self.cv.notify_all()
            while me in self.parked and not self.stop:
                self.cv.wait(0.05)

    def workers(self):
        return [t for t in threading.enumerate() if t not in self.baseline and t is not self.thread and t.is_alive()]

    def run(self):
        try:
            t0 = time.time()
            started = False
            while not self.stop:
                with self.cv:
                    live = self.workers()
                    if not started:
                        # initial barrier: every worker that has work is parked on its first pair
                        if len(self.parked) >= self.expect:
                            started = True
                        elif time.time() - t0 > 15.0 and self.parked:
                            started = True
                            self.fell_back = True
                        else:
                            self.cv.wait(0.0005)
                            continue
                    if any(t not in self.parked for t in live):
                        self.cv.wait(0.0002)
                        continue
                    if not self.parked:
                        if not live:
                            if time.time() - t0 > 0.05 and started:
                                pass
                        self.cv.wait(0.0005)
                        continue
                    # quiescent: choose among the parked workers, ordered by the pair they present
                    opts = sorted(self.parked.items(), key=lambda kv: kv[1])
                    k = len(self.branching)
                    ch = self.choices[k] % len(opts) if k < len(self.choices) else 0
                    self.branching.append(len(opts))
                    t, pair = opts[ch]
                    self.log.append((self.seen[t], pair))
                    del self.parked[t]
                    self.cv.notify_all()
        except Exception as e:   # noqa
            self.error = e


def digest(*arrs):
    h = hashlib.sha256()
    for a in arrs:
        a = np.ascontiguousarray(np.asarray(a))
        h.update(str(a.dtype).encode() + str(a.shape).encode() + a.tobytes())
    return h.hexdigest()


def basis_digest(b):
    parts = [b.dx]
    for tup in b.basis:
        for f in tup:
            parts.append(np.asarray(f))
            for a in ('grad', 'div', 'curl', 'hess'):
                v = getattr(f, a, None)
                if v is not None:
                    parts.append(np.asarray(v))
    return digest(*parts)


def setup_config(cfg):
    import skfem
    kind = cfg['kind']
    mname, nref = MESH[kind]
    m = getattr(skfem, mname)().refined(nref) if nref else getattr(skfem, mname)()
    ub = skfem.CellBasis(m, getattr(skfem, cfg['eu'])(), intorder=2)
    vb = skfem.CellBasis(m, getattr(skfem, cfg['ev'])(), intorder=2)
    return m, ub, vb


def first_scalar(f):
    v = np.asarray(f.value) if hasattr(f, 'value') else np.asarray(f)
    while v.ndim > 2:
        v = v[0]
    return v


def run_schedule(ub, vb, nthreads, choices, A0, param, timeout=180.0):
    """one threaded assembly under the given choice vector -> (matrix, scheduler) ; raises HarnessError on hang"""
    from skfem import BilinearForm
    uid = {id(ub.basis[j][0]): j for j in range(ub.Nbfun)}
    vid = {id(vb.basis[i][0]): i for i in range(vb.Nbfun)}
    P = ub.Nbfun * vb.Nbfun
    baseline = set(threading.enumerate())
    key = (ub.Nbfun, vb.Nbfun, nthreads)
    S = Scheduler(choices, OBSERVED_WORKERS.get(key, min(nthreads, P)), baseline)
    unknown = []

    def form(u, v, w):
        i, j = vid.get(id(v)), uid.get(id(u))
        if i is None or j is None:
            unknown.append((i, j))
            i, j = -1, -1
        S.enter((i, j))
        return first_scalar(u) * first_scalar(v) * first_scalar(w['c']) + 0.5 * first_scalar(u) * w.x[0]
    result = {}

    def call():
        try:
            result['A'] = BilinearForm(form, nthreads=nthreads).assemble(ub, vb, c=param)
        except Exception as e:   # noqa
            result['exc'] = e
    S.thread.start()
    caller = threading.Thread(target=call, name='vf-caller', daemon=True)
    S.baseline.add(caller)
    caller.start()
    caller.join(timeout)
    S.stop = True
    with S.cv:
        S.cv.notify_all()
    S.thread.join(2.0)
    if S.fell_back:
        OBSERVED_WORKERS[key] = max(1, len(S.seen))
    if caller.is_alive():
        raise HarnessError(f'threaded assembly did not finish within {timeout}s (nthreads={nthreads}, choices={choices[:10]})')
    if S.error is not None:
        raise HarnessError(f'scheduler error {S.error!r}')
    return result, S, unknown


def check_run(ctx, cfg, ub, vb, nthreads, result, S, unknown, A0, sig, choices):
    P = ub.Nbfun * vb.Nbfun
    if 'exc' in result:
        ctx.fail('threaded_raises', f'{type(result["exc"]).__name__}: {result["exc"]} | {cfg} choices={choices}', **sig)
        return False
    A = result['A']
    pairs = [p for _, p in S.log]
    want = sorted((i, j) for i in range(vb.Nbfun) for j in range(ub.Nbfun))
    if unknown:
        ctx.fail('foreign_arguments', 'the kernel was called with objects that are not entries of basis.basis', **sig)
        return False
    if sorted(pairs) != want:
        missing = sorted(set(want) - set(pairs))
        dup = sorted({p for p in pairs if pairs.count(p) > 1})
        ctx.fail('pairs_not_exactly_once', f'{cfg} nthreads={nthreads}: missing {missing[:6]}, repeated {dup[:6]} '
                 f'({len(pairs)} kernel calls for {P} pairs) choices={choices}', **sig)
        return False
    if S.concurrent_same_pair:
        ctx.fail('two_workers_same_pair', f'{cfg} nthreads={nthreads}', **sig)
        return False
    if A.shape != A0.shape or (A != A0).nnz or not np.array_equal(A.toarray(), A0.toarray()):
        ctx.fail('threaded_differs_from_serial', f'{cfg} nthreads={nthreads} choices={choices}: max diff '
                 f'{np.abs(A.toarray() - A0.toarray()).max() if A.shape == A0.shape else "shape"}', **sig)
        return False
    return True


def serial(ub, vb, param):
    from skfem import BilinearForm

    def form(u, v, w):
        return first_scalar(u) * first_scalar(v) * first_scalar(w['c']) + 0.5 * first_scalar(u) * w.x[0]
    return BilinearForm(form).assemble(ub, vb, c=param)


# ------------------------------------------------------------------------------ exhaustive enumeration
def exhaustive_cases(tier):
    out = []
    maxleaves = 800 if tier == 'quick' else 20000
    for kind, names in ELEMS.items():
        for eu in names:
            for ev in names:
                out.append(dict(kind=kind, eu=eu, ev=ev, maxleaves=maxleaves))
    return out


def body_exhaustive(cfg, ctx):
    m, ub, vb = setup_config(cfg)
    Nu, Nv = ub.Nbfun, vb.Nbfun
    P = Nu * Nv
    param = ub.interpolate(np.arange(1, ub.N + 1, dtype=float) / ub.N)
    A0 = serial(ub, vb, param)
    hb = (basis_digest(ub), basis_digest(vb), digest(np.asarray(param)))
    sig = dict(rect=Nu != Nv)
    ctx.cls(cfg['kind'], f'{Nu}x{Nv}')
    nschedules = 0
    nontrivial = 0
    ctx.inner_nontrivial = []
    counts = list(range(1, P + 3)) if P <= 9 else sorted({1, 2, 3, 4, P // 2, P - 1, P, P + 1, P + 2})
    for nthreads in counts:
        # depth-first enumeration of all schedules of this configuration (bounded)
        choices = []
        leaves = 0
        budget = max(12, cfg['maxleaves'] // (len(counts) * max(1, P // 4)))
        while True:
            result, S, unknown = run_schedule(ub, vb, nthreads, choices, A0, param)
            leaves += 1
            nschedules += 1
            if len(set(w for w, _ in S.log)) >= 2 and any(S.log[k][0] != S.log[k + 1][0] for k in range(len(S.log) - 1)):
                nontrivial += 1
                ctx.inner_nontrivial.append(hashlib.sha1(repr((cfg['kind'], cfg['eu'], cfg['ev'], nthreads, S.log)).encode()).hexdigest()[:16])
            if not check_run(ctx, cfg, ub, vb, nthreads, result, S, unknown, A0, dict(sig, nthreads_gt_pairs=nthreads > P), list(choices)):
                return
            b = S.branching
            c = (choices + [0] * len(b))[:len(b)]
            k = len(b) - 1
            while k >= 0 and c[k] + 1 >= b[k]:
                k -= 1
            if k < 0 or leaves >= budget:
                ctx.count('complete' if k < 0 else 'truncated', 1)
                break
            choices = c[:k] + [c[k] + 1]
    if (basis_digest(ub), basis_digest(vb), digest(np.asarray(param))) != hb:
        ctx.fail('shared_inputs_modified', 'basis arrays, dx or the parameter field changed during threaded assembly', **sig)
    ctx.count('schedules', nschedules)
    ctx.count('schedules_nontrivial', nontrivial)
    ctx.inner_evaluations = nschedules
    ctx.nt(False)


# ------------------------------------------------------------------------------ random schedules, larger local sizes
BIG = {'tri': ['ElementTriP2', 'ElementTriP3', 'ElementTriMini', 'ElementTriRT0', 'ElementTriP1'],
       'quad': ['ElementQuad2', 'ElementQuad1', 'ElementQuadS2'],
       'tet': ['ElementTetP2', 'ElementTetP1', 'ElementTetMini'],
       'line': ['ElementLineP2', 'ElementLineP1']}


@st.composite
def case_random(draw, tier):
    kind = draw(st.sampled_from(sorted(BIG)))
    eu = draw(st.sampled_from(BIG[kind]))
    ev = draw(st.sampled_from(BIG[kind]))
    fam = draw(st.sampled_from(['random', 'random', 'first_to_completion', 'last_to_completion', 'round_robin', 'reverse']))
    return dict(kind=kind, eu=eu, ev=ev, nthreads=draw(st.integers(1, 12)), family=fam,
                choices=draw(st.lists(st.integers(0, 11), min_size=0, max_size=120)))


def body_random(c, ctx):
    m, ub, vb = setup_config(c)
    Nu, Nv = ub.Nbfun, vb.Nbfun
    P = Nu * Nv
    nth = c['nthreads'] if c['nthreads'] <= 10 else P + (c['nthreads'] - 10)
    param = ub.interpolate(np.arange(1, ub.N + 1, dtype=float) / ub.N)
    A0 = serial(ub, vb, param)
    fam = c['family']
    if fam == 'random':
        choices = c['choices']
    elif fam == 'first_to_completion':
        choices = [0] * (P + 5)
    elif fam == 'last_to_completion':
        choices = [10**6 - 1] * (P + 5)          # always the worker presenting the largest pair
    elif fam == 'round_robin':
        choices = [k % max(1, nth) for k in range(P + 5)]
    else:
        choices = [(max(1, nth) - 1 - k) % max(1, nth) for k in range(P + 5)]
    hb = (basis_digest(ub), basis_digest(vb), digest(np.asarray(param)))
    result, S, unknown = run_schedule(ub, vb, nth, choices, A0, param)
    sig = dict(rect=Nu != Nv, family=fam)
    ctx.cls(c['kind'], f'{Nu}x{Nv}', 'family:' + fam, 'threads>pairs' if nth > P else 'threads<=pairs')
    ctx.nt(len(set(w for w, _ in S.log)) >= 2 and any(S.log[k][0] != S.log[k + 1][0] for k in range(len(S.log) - 1)))
    check_run(ctx, c, ub, vb, nth, result, S, unknown, A0, sig, choices[:20])
    if (basis_digest(ub), basis_digest(vb), digest(np.asarray(param))) != hb:
        ctx.fail('shared_inputs_modified', '', **sig)


# ------------------------------------------------------------------------------ free running stress
def free_cases(tier):
    out = []
    for kind in ('tri', 'quad'):
        for eu in BIG[kind][:3]:
            for ev in BIG[kind][:3]:
                out.append(dict(kind=kind, eu=eu, ev=ev, reps=20 if tier == 'quick' else 200))
    return out


def body_free(c, ctx):
    import sys
    from skfem import BilinearForm
    m, ub, vb = setup_config(c)
    P = ub.Nbfun * vb.Nbfun
    param = ub.interpolate(np.arange(1, ub.N + 1, dtype=float) / ub.N)
    A0 = serial(ub, vb, param)

    def form(u, v, w):
        return first_scalar(u) * first_scalar(v) * first_scalar(w['c']) + 0.5 * first_scalar(u) * w.x[0]
    old = sys.getswitchinterval()
    sys.setswitchinterval(1e-6)
    try:
        for r in range(c['reps']):
            nth = 1 + (r % (P + 2))
            A = BilinearForm(form, nthreads=nth).assemble(ub, vb, c=param)
            if (A != A0).nnz:
                ctx.fail('free_running_differs', f'{c} nthreads={nth}', rect=ub.Nbfun != vb.Nbfun)
                break
        # other result dtypes: the threaded kernel returns what the serial kernel returns (complex parts, single precision)
        def formc(u, v, w):
            return (1.0 + 0.5j) * first_scalar(u) * first_scalar(v) * first_scalar(w['c']) + 0.25j * first_scalar(u) * w.x[0]
        for dt, fm_ in ((np.complex128, formc), (np.float32, form)):
            Ad = BilinearForm(fm_, dtype=dt).assemble(ub, vb, c=param)
            for nth in (1, 2, P + 1):
                At = BilinearForm(fm_, dtype=dt, nthreads=nth).assemble(ub, vb, c=param)
                if At.dtype != Ad.dtype or At.shape != Ad.shape or (At != Ad).nnz:
                    ctx.fail('threaded_dtype_differs', f'{c} nthreads={nth} dtype={np.dtype(dt).name}: result dtype {At.dtype} vs {Ad.dtype}, '
                             f'max difference {abs(At - Ad).max() if At.shape == Ad.shape else "shape"}', rect=ub.Nbfun != vb.Nbfun)
                    break
            if ctx.failures:
                break
        # test functions on a scaled copy of the mesh (same topology, other integration measure): the measure is the trial basis'
        from skfem import CellBasis
        vb_s = CellBasis(m.scaled(tuple([2.0] + [1.0] * (m.dim() - 1))), type(vb.elem)(), intorder=2)
        if vb_s is not None and vb_s.dx.shape == ub.dx.shape:
            As0 = BilinearForm(form).assemble(ub, vb_s, c=param)
            for nth in (1, 3):
                As = BilinearForm(form, nthreads=nth).assemble(ub, vb_s, c=param)
                if (As != As0).nnz:
                    ctx.fail('free_running_differs', f'{c} nthreads={nth}: test basis on a scaled copy of the mesh', rect=ub.Nbfun != vb.Nbfun)
                    break
        # results stay what they were when the same threaded form object is used again
        Fk = BilinearForm(form, nthreads=2)
        E1 = Fk.elemental(ub, vb, c=param)
        snap = E1.toarray().copy()
        Fk.elemental(ub, vb, c=2.0 * param + 1.0)
        if not np.array_equal(E1.toarray(), snap):
            ctx.fail('earlier_result_changed', f'{c}: elemental data returned by a threaded form changed when the form was used again',
                     rect=ub.Nbfun != vb.Nbfun)
        # ONE threaded form object used for several assemblies in a row, as asm() over lists of bases does: trial and test
        # spaces exchanged (same number of local pairs, other local shape), and back
        A0T = serial(vb, ub, param)
        for nth in (1, 2, 3, P + 1):
            F = BilinearForm(form, nthreads=nth)
            for rnd in range(2):
                for a_, b_, ref in ((ub, vb, A0), (vb, ub, A0T)):
                    A = F.assemble(a_, b_, c=param)
                    if A.shape != ref.shape or (A != ref).nnz:
                        ctx.fail('reused_form_differs', f'{c} nthreads={nth}: the same form object assembled on (trial, test) and '
                                 f'(test, trial) in turn', rect=ub.Nbfun != vb.Nbfun)
                        break
                if ctx.failures:
                    break
            if ctx.failures:
                break
    finally:
        sys.setswitchinterval(old)
    ctx.cls(c['kind'])
    ctx.count('free_running_assemblies', c['reps'] + 16)
    ctx.nt(True)


PROP = Prop(
    'C16', 'threaded assembly equals serial assembly under every schedule',
    rule=('(a) complete enumeration: every (trial, test) pair of small elements per cell type (local sizes 1..6, rectangular '
          'included) x every thread count 1..Nu*Nv+2 x EVERY interleaving of the per-pair kernel invocations, enumerated by '
          'depth-first search over the branching observed at quiescence (bounded per configuration in the quick tier, counted as '
          'truncated when the bound is hit); (b) Hypothesis: larger local sizes x thread counts (also above the number of pairs) x '
          'random choice vectors and adversarial families (one worker to completion first/last, round robin, reverse); (c) '
          'free-running stress with a 1 us switch interval. Oracle per schedule: matrix bit-identical to nthreads=0; the multiset '
          'of observed local pairs is every pair exactly once; no two workers hold the same pair; basis arrays, dx and parameters '
          'unchanged; no hang (timeout = harness error). Non-trivial: >= 2 workers owning pairs and a schedule that is not "worker '
          'by worker"'),
    assumptions=['interleavings are controlled at kernel-invocation granularity; races inside one NumPy call are out of reach (GIL)',
                 'workers are identified by thread objects that appear after the call starts',
                 'the initial barrier expects min(nthreads, pairs) workers with work and falls back after 15 s'],
    subs=[Sub('schedules_exhaustive', body_exhaustive, cases=exhaustive_cases, max_shards=16),
          Sub('schedules_random', body_random, strategy=case_random, quick=400, thorough=8000),
          Sub('free_running', body_free, cases=free_cases, max_shards=16)],
    design_ref='DESIGN.md section 6, C16')
