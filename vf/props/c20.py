"""C20 -- autodiff gives the true Jacobian; integrand helpers equal their definitions."""
import itertools

import numpy as np
from hypothesis import strategies as st

from ..core import Prop, Sub
from ..gen import meshes as gm

CO = st.sampled_from([1.0, 0.5, 2.0, -1.0, 0.25, 1.5])
SCALAR = {'line': ['ElementLineP1', 'ElementLineP2'], 'tri': ['ElementTriP1', 'ElementTriP2', 'ElementTriMini'],
          'quad': ['ElementQuad1', 'ElementQuad2'], 'tet': ['ElementTetP1'], 'hex': ['ElementHex1']}
FAMILIES = ['quasilinear', 'exp', 'minsurf', 'logistic', 'sinrat', 'linear', 'energy', 'vector', 'composite', 'divide', 'basis_product', 'complex']


@st.composite
def case_form(draw, tier):
    fam = draw(st.sampled_from(FAMILIES))
    kinds = ('line', 'tri', 'quad', 'tet', 'hex') if fam not in ('vector',) else ('tri', 'quad', 'tet')
    desc = draw(gm.mesh(kinds=kinds, max_cells=6, max_cells_3d=2, order2=False))
    kind = gm.mesh_kind(desc)
    return dict(mesh=desc, fam=fam, elem=draw(st.sampled_from(SCALAR[kind])), a=draw(CO), b=draw(CO), seed=draw(st.integers(0, 10**6)),
                zero_x=draw(st.integers(0, 5)) == 0, nbases=draw(st.sampled_from([2, 3, 3])))


def forms(fam, a, b, d):
    """returns (jax residual integrand or energy, numpy residual integrand(v,w with w.prev), numpy linearisation(u,v,w), params, ncomp)"""
    import jax.numpy as jnp
    from skfem import helpers as H
    from skfem.autodiff import helpers as JH

    if fam == 'quasilinear':
        def jx(u, v, w):
            return (1.0 + a * u.value ** 2) * JH.dot(u.grad, v.grad) + b * u.value ** 3 * v.value - w.x[0] * v.value

        def res(v, w):
            u = w['prev']
            return (1.0 + a * u.value ** 2) * H.dot(u.grad, v.grad) + b * u.value ** 3 * v.value - w.x[0] * v.value

        def lin(du, v, w):
            u = w['prev']
            return ((1.0 + a * u.value ** 2) * H.dot(du.grad, v.grad) + 2 * a * u.value * du.value * H.dot(u.grad, v.grad)
                    + 3 * b * u.value ** 2 * du.value * v.value)
        return jx, res, lin, {}
    if fam == 'complex':
        # complex-valued problem (Helmholtz-type with a cubic term): NonlinearForm(dtype=complex128)
        za, zb = a * (1.0 + 0.5j), b * (0.25 - 1.0j)

        def jx(u, v, w):
            return JH.dot(u.grad, v.grad) - za * u.value * v.value + zb * u.value ** 3 * v.value - (1.0 + 2.0j) * w.x[0] * v.value

        def res(v, w):
            u = w['prev']
            return H.dot(u.grad, v.grad) - za * u.value * v.value + zb * u.value ** 3 * v.value - (1.0 + 2.0j) * w.x[0] * v.value

        def lin(du, v, w):
            u = w['prev']
            return H.dot(du.grad, v.grad) - za * du.value * v.value + 3 * zb * u.value ** 2 * du.value * v.value
        return jx, res, lin, dict(dtype=np.complex128)
    if fam == 'exp':
        def jx(u, v, w):
            return a * jnp.exp(b * u.value / 4) * v.value + JH.dot(u.grad, v.grad)

        def res(v, w):
            u = w['prev']
            return a * np.exp(b * u.value / 4) * v.value + H.dot(u.grad, v.grad)

        def lin(du, v, w):
            u = w['prev']
            return a * b / 4 * np.exp(b * u.value / 4) * du.value * v.value + H.dot(du.grad, v.grad)
        return jx, res, lin, {}
    if fam == 'minsurf':
        def jx(u, v, w):
            return JH.dot(u.grad, v.grad) / jnp.sqrt(1.0 + abs(a) * JH.dot(u.grad, u.grad))

        def res(v, w):
            u = w['prev']
            return H.dot(u.grad, v.grad) / np.sqrt(1.0 + abs(a) * H.dot(u.grad, u.grad))

        def lin(du, v, w):
            u = w['prev']
            s = np.sqrt(1.0 + abs(a) * H.dot(u.grad, u.grad))
            return H.dot(du.grad, v.grad) / s - abs(a) * H.dot(u.grad, du.grad) * H.dot(u.grad, v.grad) / s ** 3
        return jx, res, lin, {}
    if fam == 'logistic':
        # the bare field as right operand of "-" and left operand of "*"
        def jx(u, v, w):
            return (a - u) * (u * v) + (w.x[0] - u) * v.value * b

        def res(v, w):
            u = w['prev']
            return (a - u.value) * u.value * v.value + (w.x[0] - u.value) * v.value * b

        def lin(du, v, w):
            u = w['prev']
            return (a - 2 * u.value) * du.value * v.value - b * du.value * v.value
        return jx, res, lin, {}
    if fam == 'sinrat':
        def jx(u, v, w):
            return a * jnp.sin(u.value) * v.value + b * u.value / (1.0 + u.value ** 2) * v.value

        def res(v, w):
            u = w['prev']
            return a * np.sin(u.value) * v.value + b * u.value / (1.0 + u.value ** 2) * v.value

        def lin(du, v, w):
            u = w['prev']
            return a * np.cos(u.value) * du.value * v.value + b * (1.0 - u.value ** 2) / (1.0 + u.value ** 2) ** 2 * du.value * v.value
        return jx, res, lin, {}
    if fam == 'divide':
        # operator overloads of the field object itself: u / c, c / (..), u - c, u + c, u ** 2
        def jx(u, v, w):
            return (u / 2.0) * v.value + a / (2.0 + u ** 2) * v.value + (u - b) * (u + a) * v.value

        def res(v, w):
            u = w['prev']
            return (u.value / 2.0) * v.value + a / (2.0 + u.value ** 2) * v.value + (u.value - b) * (u.value + a) * v.value

        def lin(du, v, w):
            u = w['prev']
            return (0.5 - 2 * a * u.value / (2.0 + u.value ** 2) ** 2 + (2 * u.value + a - b)) * du.value * v.value
        return jx, res, lin, {}
    if fam == 'linear':
        def jx(u, v, w):
            return a * JH.dot(u.grad, v.grad) + b * u.value * v.value - w.x[0] * v.value

        def res(v, w):
            u = w['prev']
            return a * H.dot(u.grad, v.grad) + b * u.value * v.value - w.x[0] * v.value

        def lin(du, v, w):
            return a * H.dot(du.grad, v.grad) + b * du.value * v.value
        return jx, res, lin, {}
    if fam == 'energy':
        def jx(u, w):
            return 0.5 * JH.dot(u.grad, u.grad) + abs(a) / 4 * u.value ** 4 - b * w.x[0] * u.value

        def res(v, w):
            u = w['prev']
            return H.dot(u.grad, v.grad) + abs(a) * u.value ** 3 * v.value - b * w.x[0] * v.value

        def lin(du, v, w):
            u = w['prev']
            return H.dot(du.grad, v.grad) + 3 * abs(a) * u.value ** 2 * du.value * v.value
        return jx, res, lin, {'hessian': True}
    if fam == 'vector':
        def jx(u, v, w):
            return (JH.ddot(JH.sym_grad(u), JH.grad(v)) + a * JH.dot(u.value, u.value) * JH.dot(u.value, v.value)
                    + b * JH.div(u) * JH.div(v) + JH.trace(JH.mul(JH.grad(u), JH.transpose(JH.grad(v)))))

        def res(v, w):
            u = w['prev']
            return (H.ddot(H.sym_grad(u), H.grad(v)) + a * H.dot(u.value, u.value) * H.dot(u.value, v.value)
                    + b * H.div(u) * H.div(v) + H.trace(np.einsum('ij...,jk...->ik...', H.grad(u), H.transpose(H.grad(v)))))

        def lin(du, v, w):
            u = w['prev']
            return (H.ddot(H.sym_grad(du), H.grad(v)) + a * (2 * H.dot(u.value, du.value) * H.dot(u.value, v.value)
                                                              + H.dot(u.value, u.value) * H.dot(du.value, v.value))
                    + b * H.div(du) * H.div(v) + H.trace(np.einsum('ij...,jk...->ik...', H.grad(du), H.transpose(H.grad(v)))))
        return jx, res, lin, {}
    if fam == 'composite':
        def jx(u1, u2, v1, v2, w):
            return (JH.dot(u1.grad, v1.grad) + JH.dot(u2.grad, v2.grad) + a * u1.value * u2.value * v1.value
                    + b * u2.value ** 2 * v2.value + u1.value * v2.value)

        def res(v1, v2, w):
            u1, u2 = w['prev']
            return (H.dot(u1.grad, v1.grad) + H.dot(u2.grad, v2.grad) + a * u1.value * u2.value * v1.value
                    + b * u2.value ** 2 * v2.value + u1.value * v2.value)

        def lin(d1, d2, v1, v2, w):
            u1, u2 = w['prev']
            return (H.dot(d1.grad, v1.grad) + H.dot(d2.grad, v2.grad) + a * (d1.value * u2.value + u1.value * d2.value) * v1.value
                    + 2 * b * u2.value * d2.value * v2.value + d1.value * v2.value)
        return jx, res, lin, {}
    raise ValueError(fam)


def body_form(c, ctx):
    import skfem
    from skfem import BilinearForm, CellBasis, LinearForm
    from skfem.autodiff import NonlinearForm
    from ..cases import build_mesh
    desc = c['mesh']
    m = build_mesh(desc)
    fam = c['fam']
    E = getattr(skfem, c['elem'])
    if fam == 'vector':
        e = skfem.ElementVector(E())
    elif fam == 'composite':
        kind = gm.mesh_kind(desc)
        e = E() * getattr(skfem, SCALAR[kind][0])()
    else:
        e = E()
    if fam == 'basis_product':
        return body_basis_product(c, ctx, m, E)
    basis = CellBasis(m, e, intorder=4 if gm.mesh_kind(desc) != 'tet' else 4)
    jx, res, lin, params = forms(fam, c['a'], c['b'], m.dim())
    rng = np.random.RandomState(c['seed'])
    x0 = rng.randint(-4, 5, basis.N) / 4.0
    if c['zero_x']:
        x0 = None
    sig = dict(fam=fam)
    ctx.cls(desc['cls'], 'fam:' + fam, 'x=None' if x0 is None else 'x given')
    ctx.nt(fam != 'linear')
    nform = NonlinearForm(jx, **params)
    J, r = nform.assemble(basis, x=None if x0 is None else x0.copy())
    if c['seed'] % 2 == 0 and 'hessian' not in params:
        # the same form object used on another basis of the same class and sizes (the mesh moved): as a fresh form object would
        m2 = m.translated(tuple([0.5] + [0.25] * (m.dim() - 1)))
        basis2 = CellBasis(m2, e, intorder=4)
        Ja, ra = nform.assemble(basis2, x=None if x0 is None else x0.copy())
        Jb, rb = NonlinearForm(jx, **params).assemble(basis2, x=None if x0 is None else x0.copy())
        if abs(Ja - Jb).max() > 1e-12 * (1 + abs(Jb).max()) or np.abs(ra - rb).max() > 1e-12 * (1 + np.abs(rb).max()):
            ctx.fail('form_object_reused', f'{fam}: a NonlinearForm object assembled on a second basis differs from a fresh one by '
                     f'{abs(Ja - Jb).max():.3e} / {np.abs(ra - rb).max():.3e}', fam=fam)
    xx = basis.zeros() if x0 is None else x0
    prev = basis.interpolate(xx)
    fkw = dict(dtype=params['dtype']) if 'dtype' in params else {}
    F = LinearForm(res, **fkw).assemble(basis, prev=prev)
    K = BilinearForm(lin, **fkw).assemble(basis, prev=prev)
    sF = 1.0 + np.abs(F).max()
    if r.shape != F.shape or not np.allclose(r, -F, rtol=0, atol=1e-9 * sF):
        ctx.fail('residual', f'{fam}: returned vector differs from minus the residual assembled with NumPy helpers by '
                 f'{np.abs(r + F).max() if r.shape == F.shape else "shape"} (scale {sF:.2e})', **sig)
    # the elemental route: local Jacobians in the layout of the library's other elemental data
    if 'hessian' not in params and c['seed'] % 3 == 0:
        el = NonlinearForm(jx, **params).elemental(basis, x=None if x0 is None else x0.copy())
        Je = el[0]
        re = np.asarray(el[1].todefault())
        if re.shape != r.shape or not np.allclose(re, r, rtol=0, atol=1e-12 * sF):
            ctx.fail('elemental_vector', f'{fam}: elemental(...)[1].todefault() differs from the vector returned by assemble() by '
                     f'{np.abs(re - r).max() if re.shape == r.shape else (re.shape, r.shape)}', **sig)
        Ke = BilinearForm(lin, **fkw).elemental(basis, prev=prev)
        la, lb = np.asarray(Je.tolocal()), np.asarray(Ke.tolocal())
        if la.shape != lb.shape or not np.allclose(la, lb, rtol=0, atol=1e-9 * (1.0 + np.abs(lb).max())):
            ctx.fail('jacobian_local_matrices', f'{fam}: elemental(...)[0].tolocal() differs from the local matrices of the hand-linearised '
                     f'form by {np.abs(la - lb).max() if la.shape == lb.shape else (la.shape, lb.shape)}', **sig)
    Jd, Kd = J.toarray(), K.toarray()
    sK = 1.0 + np.abs(Kd).max()
    if Jd.shape != Kd.shape or not np.allclose(Jd, Kd, rtol=0, atol=1e-9 * sK):
        ctx.fail('jacobian_hand', f'{fam}: Jacobian differs from the hand-linearised bilinear form by '
                 f'{np.abs(Jd - Kd).max() if Jd.shape == Kd.shape else "shape"} (scale {sK:.2e})', **sig)
    # finite differences of the (independent, NumPy) residual in a few coordinate directions
    h = 2.0 ** -12
    cols = rng.choice(basis.N, min(4, basis.N), replace=False)
    for k in cols:
        ek = np.zeros(basis.N)
        ek[k] = h
        Fp = LinearForm(res, **fkw).assemble(basis, prev=basis.interpolate(xx + ek))
        Fm = LinearForm(res, **fkw).assemble(basis, prev=basis.interpolate(xx - ek))
        fd = (Fp - Fm) / (2 * h)
        # truncation error of the difference quotient itself, estimated from a second step size
        ek2 = ek / 2
        fd2 = (LinearForm(res, **fkw).assemble(basis, prev=basis.interpolate(xx + ek2))
               - LinearForm(res, **fkw).assemble(basis, prev=basis.interpolate(xx - ek2))) / h
        trunc = np.abs(fd - fd2).max()
        if not np.allclose(Jd[:, k], fd2, rtol=0, atol=2e-6 * sK + 4 * trunc):
            ctx.fail('jacobian_fd', f'{fam}: column {k} differs from central differences of the residual by {np.abs(Jd[:, k] - fd).max():.3e}', **sig)
            break
    if fam == 'linear' and x0 is not None:
        b = LinearForm(lambda v, w: w.x[0] * v).assemble(basis)
        if not np.allclose(r, -(Kd @ x0 - b), rtol=0, atol=1e-9 * sF):
            ctx.fail('linear_reduction', 'r != -(J x0 - b) for an integrand linear in u', **sig)


def body_basis_product(c, ctx, m, E):
    """several separate bases combined with CompositeBasis (as in the contact example): unknowns u_1..u_n live in different
    spaces, cyclically coupled by  grad u_i . grad v_i + a u_i u_{i+1} v_i + b sin(u_i) v_i ; the oracle assembles every block
    with ordinary forms and hand-made linearisations"""
    import jax.numpy as jnp
    import skfem
    from skfem import BilinearForm, CellBasis, LinearForm
    from skfem.assembly.basis.composite_basis import CompositeBasis
    from skfem.autodiff import NonlinearForm
    from skfem.autodiff import helpers as JH
    from skfem.helpers import dot, grad
    desc = c['mesh']
    kind = gm.mesh_kind(desc)
    n = c.get('nbases', 3)
    a, b = c['a'], c['b']
    els = [E, getattr(skfem, SCALAR[kind][0]), getattr(skfem, SCALAR[kind][-1])][:n]
    # every second case: the later bases live on a rigidly translated copy of the mesh (two bodies), and the integrand reads the
    # coordinates from w, which are those of the FIRST basis (CompositeBasis.default_parameters); same dx, h and n
    other = c['seed'] % 2 == 1
    m2 = m.translated(tuple([1.0] + [0.5] * (m.dim() - 1))) if other else m
    cx = 0.5 if other else 0.0
    bases = [CellBasis(m if i == 0 else m2, e_(), intorder=4) for i, e_ in enumerate(els)]
    cb = bases[0] * bases[1] if n == 2 else CompositeBasis(*bases)
    X0 = np.asarray(bases[0].global_coordinates().value)[0]
    sig = dict(fam='basis_product', nbases=n)
    ctx.cls(desc['cls'], 'fam:basis_product', f'nbases={n}', 'second_mesh' if other else 'one_mesh')
    ctx.nt(True)

    def F(*args):
        us, vs, w = args[:n], args[n:2 * n], args[-1]
        out = 0
        for i in range(n):
            nx = us[(i + 1) % n]
            out = out + JH.dot(JH.grad(us[i]), JH.grad(vs[i])) + a * us[i] * nx * vs[i] + b * jnp.sin(1.0 * us[i].value) * vs[i]
            if other:
                out = out + cx * w.x[0] * us[i] * vs[i]
        return out
    rng = np.random.RandomState(c['seed'])
    Ns = [bb.N for bb in bases]
    off = np.concatenate([[0], np.cumsum(Ns)])
    if cb.N != off[-1]:
        ctx.fail('composite_basis_size', f'{cb.N} vs {off[-1]}', **sig)
        return
    x0 = rng.randint(-4, 5, cb.N) / 4.0
    J, r = NonlinearForm(F).assemble(cb, x=x0.copy())
    xs = [x0[off[i]:off[i + 1]] for i in range(n)]
    prev = [bases[i].interpolate(xs[i]) for i in range(n)]
    Fv = np.zeros(cb.N)
    K = np.zeros((cb.N, cb.N))
    for i in range(n):
        j = (i + 1) % n
        Fv[off[i]:off[i + 1]] = LinearForm(lambda v, w: dot(grad(w['ui']), grad(v)) + a * w['ui'] * w['un'] * v
                                           + b * np.sin(w['ui']) * v + cx * w['X0'] * w['ui'] * v).assemble(bases[i], ui=prev[i], un=prev[j], X0=X0)
        Kii = BilinearForm(lambda u, v, w: dot(grad(u), grad(v)) + a * u * w['un'] * v + b * np.cos(w['ui']) * u * v + cx * w['X0'] * u * v
                           ).assemble(bases[i], ui=prev[i], un=prev[j], X0=X0).toarray()
        Kij = BilinearForm(lambda u, v, w: a * w['ui'] * u * v).assemble(bases[j], bases[i], ui=prev[i]).toarray()
        K[off[i]:off[i + 1], off[i]:off[i + 1]] += Kii
        K[off[i]:off[i + 1], off[j]:off[j + 1]] += Kij
    sF = 1.0 + np.abs(Fv).max()
    if r.shape != Fv.shape or not np.allclose(r, -Fv, rtol=0, atol=1e-9 * sF):
        ctx.fail('residual', f'basis product of {n}: returned vector differs from minus the block-assembled residual by '
                 f'{np.abs(r + Fv).max() if r.shape == Fv.shape else "shape"}', **sig)
    Jd = J.toarray()
    sK = 1.0 + np.abs(K).max()
    if Jd.shape != K.shape or not np.allclose(Jd, K, rtol=0, atol=1e-9 * sK):
        ctx.fail('jacobian_hand', f'basis product of {n}: Jacobian differs from the block-assembled linearisation by '
                 f'{np.abs(Jd - K).max() if Jd.shape == K.shape else "shape"}', **sig)


# ------------------------------------------------------------------------------ helpers
HELPERS = ['dot', 'ddot', 'dddot', 'prod2', 'prod3', 'mul', 'trace', 'transpose', 'eye', 'identity', 'det', 'inv', 'cross',
           'sym_grad', 'div', 'curl', 'grad', 'dd', 'mul_matmat']


@st.composite
def case_helper(draw, tier):
    return dict(fn=draw(st.sampled_from(HELPERS)), n=draw(st.sampled_from([2, 3])),
                trail=draw(st.sampled_from([[], [1], [3], [2, 3], [1, 1], [4, 2]])), seed=draw(st.integers(0, 10**6)),
                lib=draw(st.sampled_from(['numpy', 'jax'])),
                # physical units: tensors of micro-scale or kilo-scale entries are as well conditioned as O(1) ones (powers of two)
                scale=draw(st.sampled_from([0, 0, 0, -10, -20, -27, 10])))


def body_helper(c, ctx):
    import skfem.helpers as H
    from skfem.element import DiscreteField
    fn, n, trail = c['fn'], c['n'], tuple(c['trail'])
    rng = np.random.RandomState(c['seed'])

    def rnd(*lead):
        # dyadic numbers with a 2^-30 part: exact in double precision, NOT representable in single precision
        return rng.randint(-8, 9, lead + trail) / 4.0 + rng.randint(-3, 4, lead + trail) * 2.0 ** -30
    lib = c['lib']
    if lib == 'jax':
        import jax.numpy as jnp
        import skfem.autodiff.helpers as JH
        from skfem.autodiff import JaxDiscreteField
        if not hasattr(JH, {'prod2': 'prod', 'prod3': 'prod', 'mul_matmat': 'mul'}.get(fn, fn)):
            ctx.cls('jax-missing:' + fn)
            return
        M = JH
        Field = JaxDiscreteField
        to = jnp.asarray
    else:
        M = H
        Field = DiscreteField
        to = np.asarray
    sig = dict(fn=fn, lib=lib, n=n)
    ctx.cls(lib, fn, f'n={n}', f'trail={len(trail)}', *([f'scale=2^{c.get("scale", 0)}'] if fn in ('det', 'inv') else []))
    ctx.nt(n == 3 or len(trail) >= 1)
    ix = list(itertools.product(range(n), repeat=2))

    s = 2.0 ** c.get('scale', 0)

    def close(got, want, mag=1.0):
        got = np.asarray(got)
        if got.shape != want.shape or not np.allclose(got, want, rtol=0, atol=1e-12 * mag * (1 + np.abs(want).max() / mag)):
            ctx.fail('helper_definition', f'{lib}.{fn} (n={n}, trailing axes {trail}): max diff '
                     f'{np.abs(got - want).max() if got.shape == want.shape else (got.shape, want.shape)}', **sig)
    if fn == 'dot':
        u, v = rnd(n), rnd(n)
        close(M.dot(to(u), to(v)), sum(u[i] * v[i] for i in range(n)))
    elif fn == 'ddot':
        A, B = rnd(n, n), rnd(n, n)
        close(M.ddot(to(A), to(B)), sum(A[i, j] * B[i, j] for i, j in ix))
    elif fn == 'dddot':
        A, B = rnd(n, n, n), rnd(n, n, n)
        close(M.dddot(to(A), to(B)), sum(A[i, j, k] * B[i, j, k] for i in range(n) for j in range(n) for k in range(n)))
    elif fn == 'prod2':
        u, v = rnd(n), rnd(n)
        close(M.prod(to(u), to(v)), np.array([[u[i] * v[j] for j in range(n)] for i in range(n)]))
    elif fn == 'prod3':
        u, v, w = rnd(n), rnd(n), rnd(n)
        close(M.prod(to(u), to(v), to(w)), np.array([[[u[i] * v[j] * w[k] for k in range(n)] for j in range(n)] for i in range(n)]))
    elif fn == 'mul':
        A, x = rnd(n, n), rnd(n)
        close(M.mul(to(A), to(x)), np.array([sum(A[i, j] * x[j] for j in range(n)) for i in range(n)]))
    elif fn == 'mul_matmat':
        if lib != 'jax':
            return
        A, B = rnd(n, n), rnd(n, n)
        close(M.mul(to(A), to(B)), np.array([[sum(A[i, j] * B[j, k] for j in range(n)) for k in range(n)] for i in range(n)]))
    elif fn == 'trace':
        A = rnd(n, n)
        close(M.trace(to(A)), sum(A[i, i] for i in range(n)))
    elif fn == 'transpose':
        A = rnd(n, n)
        close(M.transpose(to(A)), np.array([[A[j, i] for j in range(n)] for i in range(n)]))
    elif fn == 'eye':
        w = rnd()
        want = np.array([[w if i == j else 0 * w for j in range(n)] for i in range(n)])
        close(M.eye(to(w), n), want)
    elif fn == 'identity':
        if len(trail) < 2:
            return
        A = rnd(n, n)
        want = np.array([[np.ones(trail[-2:]) if i == j else np.zeros(trail[-2:]) for j in range(n)] for i in range(n)])
        close(M.identity(to(A[(slice(None), slice(None)) + (0,) * (len(trail) - 2)])), want)
        close(M.identity(to(A[0, 0][(0,) * (len(trail) - 2)]), N=n), want)
    elif fn == 'det':
        A = rnd(n, n)
        want = np.linalg.det(np.moveaxis(A, (0, 1), (-2, -1))) * s ** n
        close(M.det(to(A * s)), np.asarray(want), mag=s ** n)
    elif fn == 'inv':
        A = rnd(n, n) + 4.0 * np.eye(n).reshape((n, n) + (1,) * len(trail))
        Am = np.moveaxis(A, (0, 1), (-2, -1))
        if np.abs(np.linalg.det(Am)).min() < 0.5:
            return
        want = np.moveaxis(np.linalg.inv(Am), (-2, -1), (0, 1)) / s
        close(M.inv(to(A * s)), want, mag=1.0 / s)
    elif fn == 'cross':
        u, v = rnd(n), rnd(n)
        if n == 2:
            want = u[0] * v[1] - u[1] * v[0]
        else:
            want = np.array([u[1] * v[2] - u[2] * v[1], u[2] * v[0] - u[0] * v[2], u[0] * v[1] - u[1] * v[0]])
        close(M.cross(to(u), to(v)), want)
    elif fn in ('sym_grad', 'div', 'curl', 'grad', 'dd'):
        G = rnd(n, n)
        val = rnd(n)
        Hs = rnd(n, n)
        if lib == 'jax':
            f = Field(to(val), grad=to(G), hess=to(Hs))
        else:
            f = Field(val, grad=G, hess=Hs)
        if fn == 'sym_grad':
            close(M.sym_grad(f), np.array([[0.5 * (G[i, j] + G[j, i]) for j in range(n)] for i in range(n)]))
        elif fn == 'grad':
            close(M.grad(f), G)
        elif fn == 'dd':
            close(M.dd(f), Hs)
        elif fn == 'div':
            if len(trail) != 2:
                return      # the helpers decide by the number of axes (vector field over (cells, points))
            close(M.div(f), sum(G[i, i] for i in range(n)))
        else:
            if len(trail) != 2:
                return
            if n == 2:
                want = G[1, 0] - G[0, 1]
            else:
                want = np.array([G[2, 1] - G[1, 2], G[0, 2] - G[2, 0], G[1, 0] - G[0, 1]])
            close(M.curl(f), want)
            # scalar field in 2-D: rotated gradient
            if n == 2 and lib == 'numpy':
                g = rnd(n)
                fs = Field(rnd(), grad=g)
                close(M.curl(fs), np.array([g[1], -g[0]]))


PROP = Prop(
    'C20', 'autodiff gives the true Jacobian; integrand helpers equal their definitions',
    rule=('(a) generated mesh (<= 6 cells) x element (scalar P1/P2/bubble, vector, two-component composite) x nonlinear integrand '
          'family with random coefficients (quasilinear diffusion, exponential, minimal-surface, logistic with the bare field as '
          'operand of - and *, trigonometric/rational, field-operator overloads /, **, +, -, a linear one, an energy functional in '
          'hessian mode, vector elasticity-like with JAX helpers, coupled composite) x linearisation point (also x=None): the '
          'returned vector == minus the residual assembled by an ordinary LinearForm with NumPy helpers, the matrix == the '
          'hand-linearised BilinearForm (1e-9) and == central differences of the NumPy residual in random coordinate directions '
          '(2e-6), linear integrands reduce to ordinary assembly; (b) every helper in skfem.helpers and every same-named helper in '
          'skfem.autodiff.helpers against its definition written with explicit index sums / numpy.linalg on moved axes, for 2x2 '
          'and 3x3 inputs over 0-2 trailing axes. Non-trivial: integrand nonlinear in u; helper input 3x3 or with trailing axes'),
    assumptions=['JAX on CPU with x64 (set by skfem.autodiff); tolerances 1e-9 (exact linearisation) and 2e-6 (finite differences)',
                 'helpers missing from the JAX module (inv, cross, curl, identity, ...) are reported as classes, not failed',
                 'inv is exercised on well-conditioned inputs (|det| >= 0.5)'],
    subs=[Sub('forms', body_form, strategy=case_form, quick=160, thorough=3000),
          Sub('helpers', body_helper, strategy=case_helper, quick=3000, thorough=60000)],
    design_ref='DESIGN.md section 6, C20')
PROP.rule += ('. Added in round 2: family basis_product (two or three separate CellBases combined with * / CompositeBasis, cyclically coupled nonlinear integrand, oracle = block assembly with ordinary forms); det and inv with entries scaled by 2^-27 .. 2^10.')
