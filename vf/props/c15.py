"""C15 -- no hidden state: history-independent results, operands never mutated.

A rule-based state machine works on a pool of long-lived objects (meshes with their recipes, SHARED element
instances, solver closures).  Every rule computes its result twice: on the pooled objects, and on objects freshly
rebuilt from the recipes (new mesh, new element instance, new closure); the two must agree bit for bit (1e-8
relative for iterative/eigen solvers) and an exception on one side only is a failure.  Operand arrays are
check-summed before and after every rule.
"""
import hashlib

import numpy as np
from hypothesis import strategies as st
from hypothesis.stateful import initialize, rule

from ..core import Prop, Reject, Sub, Unsupported
from ..gen import meshes as gm
from ..stateful import HistoryMachine, history_body, make_machine

ELEM_POOL = {
    'line': [{'cls': 'ElementLineP1'}, {'cls': 'ElementLineP2'}, {'cls': 'ElementLinePp', 'p': 3}, {'cls': 'ElementLineHermite'},
             {'cls': 'ElementLineMini'}],
    'tri': [{'cls': 'ElementTriP1'}, {'cls': 'ElementTriP2'}, {'cls': 'ElementTriMorley'}, {'cls': 'ElementTriArgyris'},
            {'cls': 'ElementTriRT0'}, {'cls': 'ElementTriN1'}, {'cls': 'ElementTriMini'}, {'cls': 'ElementTriP1G'}],
    'quad': [{'cls': 'ElementQuad1'}, {'cls': 'ElementQuad2'}, {'cls': 'ElementQuadP', 'p': 3}, {'cls': 'ElementQuadP', 'p': 2},
             {'cls': 'ElementQuadBFS'}, {'cls': 'ElementQuad2G'}, {'cls': 'ElementQuadRT0'}],
    'tet': [{'cls': 'ElementTetP1'}, {'cls': 'ElementTetP2'}, {'cls': 'ElementTetN0'}],
    'hex': [{'cls': 'ElementHex1'}, {'cls': 'ElementHex2'}],
}
SOLVERS = ['direct', 'krylov', 'pcg', 'cg', 'eigen', 'eigen_sym']
MESH_ATTRS = ['facets', 't2f', 'f2t', 'boundary_facets', 'boundary_nodes', 'p2t', 'edges', 't2e', 'param']


def digest(*arrs):
    h = hashlib.sha256()
    for a in arrs:
        a = np.ascontiguousarray(np.asarray(a))
        h.update(str(a.dtype).encode() + str(a.shape).encode() + a.tobytes())
    return h.hexdigest()


def mesh_digest(m):
    parts = [m.p, m.t]
    for d in (m.boundaries or {}, m.subdomains or {}):
        for k in sorted(d):
            parts.append(np.asarray(d[k]))
    return digest(*parts)


class State:
    pass


def key(d):
    return d['cls'] + (f"({d['p']})" if 'p' in d else '')


def new_state(init, ctx):
    from ..cases import build_mesh
    s = State()
    s.meshes = []           # dicts: obj, recipe (list: descriptor then op steps), kind
    s.elems = {}            # key -> shared instance
    s.solvers = {}          # name -> closure
    s.nrules = 0
    s.reuse = 0
    for desc in init['meshes']:
        s.meshes.append(dict(obj=build_mesh(desc), recipe=[desc], kind=gm.mesh_kind(desc)))
    ctx.cls(*[d['cls'] for d in init['meshes']])
    return s


def rebuild(recipe):
    """fresh mesh from a recipe (descriptor followed by the mesh operations that produced it)"""
    from ..cases import build_mesh
    m = build_mesh(recipe[0])
    for op in recipe[1:]:
        m = mesh_op(m, op)
    return m


def mesh_op(m, op):
    k = op['kind']
    if k == 'refined':
        return m.refined()
    if k == 'adaptive':
        marked = np.array(sorted({int(q) % m.nelements for q in op['picks']}), dtype=np.int64)
        return m.refined(marked)
    if k == 'translated':
        return m.translated(tuple([0.5] * m.dim()))
    if k == 'scaled':
        return m.scaled(tuple([2.0] * m.dim()))
    if k == 'mirrored':
        return m.mirrored(tuple([1.0] + [0.0] * (m.dim() - 1)))
    if k == 'restrict':
        n = max(1, m.nelements - 1)
        return m.restrict(np.arange(n))
    if k == 'tagged':
        # name and selection vary with the step, so a mesh that already carries tags gets other ones (its own must stay as they are)
        q = op.get('picks') or [0]
        nm, off = ['b', 'c'][int(q[0]) % 2], int(q[-1]) % 2
        return m.with_boundaries({nm: m.boundary_facets()[off::2]}).with_subdomains({'s' + nm: np.arange(off, m.nelements, 2)})
    if k == 'oriented':
        return m.oriented()
    if k == 'removed_unused':
        return m.remove_unused_nodes()
    if k == 'morphed':
        return m.morphed(lambda p: p[0] + 0.125 * p[0] * p[0])
    if k == 'from_arrays':
        # a new first-order mesh of the same class built directly on this mesh's own arrays (the constructor may normalise, not touch)
        return type(m)(m.p, m.t)
    if k == 'same_points':
        # another mesh on the SAME point array object (sub-meshes, re-triangulations and m @ n parts share it): cells in reverse
        return type(m)(m.p, m.t[:, ::-1])
    raise ValueError(k)


def get_elem(s, d):
    from ..cases import build_element
    k = key(d)
    if k not in s.elems:
        s.elems[k] = build_element(d)
    else:
        s.reuse += 1
    return s.elems[k]


def make_solver(name):
    from skfem import utils as U
    return {'direct': lambda: U.solver_direct_scipy(),
            'krylov': lambda: U.solver_iter_krylov(rtol=1e-12, atol=0.0),
            'pcg': lambda: U.solver_iter_pcg(rtol=1e-12, atol=0.0),
            'cg': lambda: U.solver_iter_cg(tol=1e-13),
            'eigen': lambda: U.solver_eigen_scipy(k=3, sigma=0.0),
            'eigen_sym': lambda: U.solver_eigen_scipy_sym(k=3, sigma=0.0)}[name]()


POINTS = {}


def point_sets(kind):
    from ..oracle import fd
    if kind not in POINTS:
        lat = fd.lattice(kind, 3)
        n = 8 if lat.shape[1] >= 16 else max(2, lat.shape[1] // 2)
        A = np.ascontiguousarray(lat[:, :n])
        B = np.ascontiguousarray(lat[:, n:2 * n])
        C = A.copy()
        if C.shape[0] >= 2:
            C[1] = B[1][: C.shape[1]]          # same first coordinates as A, other second coordinates
        POINTS[kind] = dict(A=A, B=B, C=C)
    return POINTS[kind]


def compare(ctx, what, a, b, sig, tol=None):
    """bit-for-bit (or relative tol) comparison of two results, each possibly an exception"""
    ea, eb = isinstance(a, Exception), isinstance(b, Exception)
    if ea or eb:
        if ea != eb:
            ctx.fail(what, f'{"pooled" if ea else "fresh"} objects raise {type(a if ea else b).__name__}: {a if ea else b}; the other side '
                     f'returns a result', **sig)
        return
    la = a if isinstance(a, (list, tuple)) else [a]
    lb = b if isinstance(b, (list, tuple)) else [b]
    if len(la) != len(lb):
        ctx.fail(what, f'{len(la)} vs {len(lb)} results', **sig)
        return
    for x, y in zip(la, lb):
        x, y = np.asarray(x), np.asarray(y)
        if x.shape != y.shape:
            ctx.fail(what, f'result of shape {x.shape} on the long-lived objects, {y.shape} on fresh ones', **sig)
            return
        if tol is None:
            if not np.array_equal(x, y, equal_nan=True):
                with np.errstate(all='ignore'):
                    dd = np.nanmax(np.abs(x.astype(complex) - y.astype(complex))) if x.size else 0
                ctx.fail(what, f'result depends on history: max difference {dd:.3e} between the long-lived objects and freshly built equal ones', **sig)
                return
        else:
            sc = 1.0 + np.abs(y).max() if y.size else 1.0
            if not np.allclose(x, y, rtol=0, atol=tol * sc):
                ctx.fail(what, f'result depends on history: max difference {np.abs(x - y).max():.3e} (tolerance {tol:.0e} relative)', **sig)
                return


def attempt(fn):
    try:
        return fn()
    except Exception as e:   # noqa
        return e


def dense(A):
    return A.toarray() if hasattr(A, 'toarray') else np.asarray(A)


def eig_canon(L, X):
    """sorted eigenvalues and the shape of the eigenvector array (ARPACK starts from a random vector and eigenvectors of
    multiple eigenvalues are not unique, so the vectors themselves are not comparable between two runs)"""
    L = np.asarray(L)
    return [np.sort(L.real), np.array(np.asarray(X).shape)]


def apply(s, step, ctx):
    import skfem
    from skfem import BilinearForm, CellBasis, FacetBasis, LinearForm
    from skfem.helpers import dot, grad
    from ..cases import build_element
    op = step['op']
    sig = dict(op=op)
    s.nrules += 1
    mi = (len(s.meshes) - 1) if step.get('mesh') == 'last' else step.get('mesh', 0) % len(s.meshes)
    ent = s.meshes[mi]
    s.uses = getattr(s, 'uses', {})
    s.uses[mi] = s.uses.get(mi, 0) + 1
    if s.uses[mi] >= 2:
        s.reuse += 1
    m, kind = ent['obj'], ent['kind']
    before = mesh_digest(m)
    ctx.cls('op:' + op)

    def after():
        if mesh_digest(m) != before:
            ctx.fail('operand_mutated', f'{op} changed the arrays of the {type(m).__name__} it was applied to', **sig)
    if op == 'touch':
        name = MESH_ATTRS[step['attr'] % len(MESH_ATTRS)]
        if name in ('edges', 't2e') and m.dim() != 3:
            raise Reject()

        def val(mm):
            v = getattr(mm, name)
            v = v() if callable(v) else v
            return v.toarray() if hasattr(v, 'toarray') else v
        compare(ctx, 'mesh_attribute', attempt(lambda: val(m)), attempt(lambda: val(rebuild(ent['recipe']))), dict(sig, attr=name))
        after()
    elif op == 'mapping':
        if kind == 'wedge':
            raise Reject()
        fn = ['F', 'DF', 'detDF', 'invDF', 'G', 'detDG'][step['fn'] % 6]
        P = point_sets(kind)
        facet = fn in ('G', 'detDG')
        if facet and m.dim() == 1:
            raise Reject()
        bk = {'tri': 'line', 'quad': 'line', 'tet': 'tri', 'hex': 'quad', 'line': 'line'}[kind]
        X = point_sets(bk if facet else kind)[['A', 'B', 'C'][step['pts'] % 3]]
        layout = ['shared', 'shared_ix4', 'percell4', 'shared_ix2', 'percell2'][step['layout'] % 5]
        n_ent = m.nfacets if facet else m.nelements
        if layout == 'shared':
            Xa, ix = X, None
        else:
            # shared points with an explicit list of k cells/facets, or the SAME BYTES reshaped to per-cell points
            # (dim, k, npts/k) with the same list: equal-content arguments of different shape
            kdiv = 4 if layout.endswith('4') else 2
            if X.shape[1] % kdiv or n_ent < kdiv:
                raise Reject()
            # the list of cells/facets varies between steps while the point array OBJECT stays the same
            ix = ((np.arange(kdiv) + step.get('shift', 0)) % n_ent).astype(np.int32)
            Xa = X if layout.startswith('shared') else X.reshape(X.shape[0], kdiv, X.shape[1] // kdiv)

        def val(mm):
            mp = mm.mapping()
            if facet:
                return getattr(mp, fn)(Xa, find=ix)
            return getattr(mp, fn)(Xa, ix) if ix is not None else getattr(mp, fn)(Xa)
        compare(ctx, 'mapping_evaluation', attempt(lambda: val(m)), attempt(lambda: val(rebuild(ent['recipe']))), dict(sig, fn=fn, layout=layout))
        after()
    elif op == 'lbasis':
        pool = [d for d in ELEM_POOL[kind] if d['cls'] not in ('ElementTriMorley', 'ElementTriArgyris', 'ElementQuadBFS', 'ElementQuad2G',
                                                               'ElementLineHermite', 'ElementTriP1G')]
        d = pool[step['elem'] % len(pool)]
        e = get_elem(s, d)
        i = step['i'] % max(1, len(e.doflocs))
        # one point set, or several one after the other on the SAME instance (sets sharing some coordinate rows, equal shapes)
        for q in step.get('seq') or [step['pts']]:
            if q == 3:
                # the element of a kept basis, evaluated at other points of the same array shape as that basis' quadrature points
                if not getattr(s, 'bases', None) or np.asarray(s.bases[-1]['obj'].X).ndim != 2:
                    continue
                d = s.bases[-1]['elem']
                e = get_elem(s, d)
                i = step['i'] % max(1, len(e.doflocs))
                X = 0.5 * np.asarray(s.bases[-1]['obj'].X) + 0.125
            else:
                X = point_sets(kind)[['A', 'B', 'C'][q % 3]]

            def val(el):
                out = el.lbasis(X.copy(), i)
                return [np.array(o, copy=True) for o in out[:2]]
            compare(ctx, 'element_evaluation', attempt(lambda: val(e)), attempt(lambda: val(build_element(d))), dict(sig, elem=key(d)))
            if ctx.failures:
                break
    elif op in ('assemble', 'interpolate', 'probes'):
        if kind == 'wedge':
            raise Reject()
        d = ELEM_POOL[kind][step['elem'] % len(ELEM_POOL[kind])]
        e = get_elem(s, d)
        bkind = ['cell', 'facet', 'subset'][step['basis'] % 3]
        if bkind == 'facet' and (kind == 'line'):
            bkind = 'cell'
        cells = np.array(sorted({int(q) % m.nelements for q in step['picks']}), dtype=np.int32)

        def make(mm, el):
            if bkind == 'cell':
                return CellBasis(mm, el, intorder=3)
            if bkind == 'facet':
                return FacetBasis(mm, el, intorder=3)
            return CellBasis(mm, el, intorder=3, elements=cells)

        def val(mm, el):
            b = make(mm, el)
            if op == 'assemble':
                def form(u, v, w):
                    a = np.asarray(u.value)
                    bb = np.asarray(v.value)
                    while a.ndim > 2:
                        a = a[0]
                    while bb.ndim > 2:
                        bb = bb[0]
                    return a * bb * (1.0 + w.x[0])
                return BilinearForm(form).assemble(b).toarray()
            x = (np.arange(b.N) % 7 - 3) / 2.0
            if op == 'interpolate':
                f = b.interpolate(x)
                out = [np.asarray(f.value)]
                if getattr(f, 'grad', None) is not None:
                    out.append(np.asarray(f.grad))
                return out
            if bkind != 'cell':
                raise Reject()
            pts = mm.p[:, mm.t[:, :min(3, mm.nelements)]].mean(1)       # cell centroids: strictly interior points
            f = b.interpolator(x)
            return [np.asarray(f(pts[:, k:k + 1])) for k in range(pts.shape[1])] + [np.asarray(b.probes(pts).toarray())]
        glob = d['cls'] in ('ElementTriMorley', 'ElementTriArgyris', 'ElementQuadBFS', 'ElementQuad2G', 'ElementLineHermite', 'ElementTriP1G')
        compare(ctx, op + '_result', attempt(lambda: val(m, e)), attempt(lambda: val(rebuild(ent['recipe']), build_element(d))),
                dict(sig, elem=key(d)), tol=(1e-7 if glob else None))
        after()
    elif op in ('keep_basis', 'reuse_basis'):
        if kind == 'wedge':
            raise Reject()
        if op == 'keep_basis':
            pool = [d_ for d_ in ELEM_POOL[kind] if d_['cls'] not in ('ElementTriArgyris', 'ElementQuadBFS')]
            d = pool[step['elem'] % len(pool)]
            e = get_elem(s, d)
            bkind = ['cell', 'facet'][step['basis'] % 2] if kind != 'line' else 'cell'
            if m.nelements > 40:
                raise Reject()
            b = attempt(lambda: (CellBasis if bkind == 'cell' else FacetBasis)(m, e, intorder=3))
            if isinstance(b, Exception):
                # the library refuses (e.g. Newton inversion on a badly conditioned refined cell): fresh objects must refuse alike
                fresh_b = attempt(lambda: (CellBasis if bkind == 'cell' else FacetBasis)(rebuild(ent['recipe']), build_element(d), intorder=3))
                compare(ctx, 'kept_basis_result', b, fresh_b, dict(sig, elem=key(d)))
                after()
                return
            s.bases = getattr(s, 'bases', [])
            s.bases.append(dict(obj=b, recipe=list(ent['recipe']), elem=d, bkind=bkind))
            s.bases = s.bases[-3:]
        else:
            if not getattr(s, 'bases', None):
                raise Reject()
            kb = s.bases[step['basis'] % len(s.bases)]
            d = kb['elem']

            def val(b):
                def form(u, v, w):
                    a = np.asarray(u.value)
                    bb = np.asarray(v.value)
                    while a.ndim > 2:
                        a = a[0]
                    while bb.ndim > 2:
                        bb = bb[0]
                    return a * bb * (1.0 + w.x[0])
                x = (np.arange(b.N) % 7 - 3) / 2.0
                f = b.interpolate(x)
                return [BilinearForm(form).assemble(b).toarray(), np.asarray(f.value)]
            glob = d['cls'] in ('ElementTriMorley', 'ElementQuad2G', 'ElementLineHermite', 'ElementTriP1G')
            fresh = lambda: (CellBasis if kb['bkind'] == 'cell' else FacetBasis)(rebuild(kb['recipe']), build_element(d), intorder=3)  # noqa
            compare(ctx, 'kept_basis_result', attempt(lambda: val(kb['obj'])), attempt(lambda: val(fresh())),
                    dict(sig, elem=key(d)), tol=(1e-7 if glob else None))
            s.reuse += 1
        after()
    elif op == 'mesh_op':
        kinds = ['refined', 'adaptive', 'translated', 'scaled', 'mirrored', 'restrict', 'tagged', 'oriented', 'removed_unused', 'morphed', 'same_points', 'from_arrays']
        k = kinds[step['kind'] % len(kinds)]
        if k == 'adaptive' and kind not in ('tri', 'tet', 'line'):
            k = 'refined'
        if k == 'oriented' and kind not in ('tri', 'tet'):
            k = 'translated'
        if k in ('refined', 'adaptive') and (kind == 'wedge' or m.nelements > 60):
            raise Reject()
        if k == 'mirrored' and type(m).__name__.endswith('2'):
            k = 'translated'
        if k == 'same_points' and (type(m).__name__.endswith('2') or m.subdomains or m.boundaries):
            k = 'translated'
        if k == 'from_arrays' and type(m).__name__.endswith('2'):
            k = 'translated'
        if k in ('restrict', 'removed_unused') and m.nelements < 2:
            raise Reject()
        o = dict(kind=k, picks=step['picks'])
        st0 = np.random.get_state()[1][:4].copy()
        new = attempt(lambda: mesh_op(m, o))
        fresh = attempt(lambda: mesh_op(rebuild(ent['recipe']), o))
        if not np.array_equal(np.random.get_state()[1][:4], st0):
            ctx.cls('global-rng-reseeded')          # observed and reported, not a violation (DESIGN section 6, C15)
        if isinstance(new, Exception) or isinstance(fresh, Exception):
            compare(ctx, 'mesh_operation', new, fresh, dict(sig, kind=k))
        else:
            compare(ctx, 'mesh_operation', [new.p, new.t], [fresh.p, fresh.t], dict(sig, kind=k))
            if mesh_digest(new) != mesh_digest(fresh) and not ctx.failures:
                ctx.fail('mesh_operation', 'named sets of the result differ between long-lived and fresh operands', **dict(sig, kind=k))
            # the same call once more on the same operand: the same answer (no generator or counter advancing behind the scenes)
            again = attempt(lambda: mesh_op(m, o))
            if not isinstance(again, Exception) and not ctx.failures:
                compare(ctx, 'mesh_operation_repeated', [again.p, again.t], [new.p, new.t], dict(sig, kind=k))
            if len(s.meshes) >= 4:
                del s.meshes[2]               # the two initial meshes stay; derived ones rotate
            s.meshes.append(dict(obj=new, recipe=ent['recipe'] + [o], kind=kind))
        after()
    elif op == 'finder':
        if kind == 'wedge' or type(m).__name__.endswith('2'):
            raise Reject()
        pts = m.p[:, m.t[:, ::max(1, m.nelements // 4)]].mean(1)

        def val(mm):
            return np.asarray(mm.element_finder()(*pts))
        compare(ctx, 'element_finder', attempt(lambda: val(m)), attempt(lambda: val(rebuild(ent['recipe']))), sig)
        after()
    elif op in ('solve', 'bc'):
        if kind == 'wedge':
            raise Reject()
        d = ELEM_POOL[kind][0]

        def system(mm):
            b = CellBasis(mm, build_element(d), intorder=2)
            A = BilinearForm(lambda u, v, w: dot(grad(u), grad(v)) + u * v).assemble(b)
            M = BilinearForm(lambda u, v, w: u * v).assemble(b)
            f = LinearForm(lambda v, w: (1.0 + w.x[0]) * v).assemble(b)
            return b, A, M, f
        b, A, M, f = system(m)
        if step.get('alt'):
            f = 2.0 * f[::-1].copy() + 1.0          # another system of the same size for the same solver object
        if op == 'bc':
            from skfem import condense, enforce, penalize
            D = b.get_dofs().flatten()
            x = np.arange(b.N) / max(1, b.N)
            h0 = (digest(A.data, A.indices, A.indptr), digest(f), digest(x), digest(D))
            which = ['condense', 'enforce', 'penalize'][step['which'] % 3]
            if which == 'condense':
                out = condense(A, f, x=x, D=D)
                res = [dense(out[0]), out[1]]
            elif which == 'enforce':
                out = enforce(A, f, x=x, D=D)
                res = [dense(out[0]), out[1]]
            else:
                out = penalize(A, f, x=x, D=D, epsilon=1e-8)
                res = [dense(out[0]), out[1]]
            if (digest(A.data, A.indices, A.indptr), digest(f), digest(x), digest(D)) != h0:
                ctx.fail('operand_mutated', f'{which} without overwrite changed an argument', **sig)
            after()
            return
        name = SOLVERS[step['solver'] % len(SOLVERS)]
        if name not in s.solvers:
            s.solvers[name] = make_solver(name)
        else:
            s.reuse += 1
        pooled = s.solvers[name]
        eig = name.startswith('eigen')
        extra = {}
        if eig and b.N < 8:
            raise Reject()
        if step['kw'] % 3 == 1:
            extra = {'k': 2} if eig else ({'maxiter': 2000} if name in ('krylov', 'pcg') else ({'maxiters': 400} if name == 'cg' else {}))
        h0 = (digest(A.data, A.indices, A.indptr), digest(f))
        from skfem import solve

        def run(sv):
            if eig:
                L, X = solve(A, M, solver=sv, **extra)
                return eig_canon(L, X)
            return solve(A, f, solver=sv, **extra)
        # deterministic solvers (direct, Krylov with a fixed start) give bit-identical answers whatever the closure solved before;
        # ARPACK starts from a random vector: eigenpairs at 1e-7
        compare(ctx, 'solve_result', attempt(lambda: run(pooled)), attempt(lambda: run(make_solver(name))), dict(sig, solver=name),
                tol=(1e-7 if eig else None))
        if name in ('eigen', 'eigen_sym', 'direct', 'cg') and (digest(A.data, A.indices, A.indptr), digest(f)) != h0:
            ctx.fail('operand_mutated', f'solve with {name} changed the system', **sig)
        after()
    else:
        raise ValueError(op)
    if s.nrules >= 3 and s.reuse >= 1:
        ctx.nt()


INT = st.integers(0, 10**4)


class PoolMachine(HistoryMachine):
    @initialize(data=st.data())
    def init_pool(self, data):
        k1 = data.draw(st.sampled_from(['line', 'tri', 'quad', 'tet', 'hex', 'tri', 'quad']))
        d1 = data.draw(gm.mesh(kinds=(k1,), max_cells=10, max_cells_3d=5, order2=True, curved=True, allow_holes=False, min_cells=2))
        if data.draw(st.booleans()):
            # the structured default meshes everybody starts from (many equal edge lengths: ties in longest-edge rules)
            import skfem
            cls = gm.CLS1[k1]
            m0 = getattr(skfem, cls)()
            if data.draw(st.booleans()) and k1 in ('line', 'tri', 'quad'):
                m0 = m0.refined()
            d2 = dict(cls=cls, p=m0.p.tolist(), t=m0.t.tolist(), feat=[k1, 'default-constructor'])
        else:
            d2 = data.draw(gm.mesh(kinds=(k1,), max_cells=10, max_cells_3d=5, order2=False, allow_holes=False, min_cells=2))
        self.start(dict(meshes=[d1, d2]))

    @rule(mesh=INT, attr=INT)
    def touch(self, mesh, attr):
        self.do(dict(op='touch', mesh=mesh, attr=attr))

    # small domains on purpose: collisions between equal-size / equal-bytes arguments must be frequent, not measure zero
    @rule(mesh=st.integers(0, 3), fn=st.sampled_from([1, 2, 3, 1, 2, 0, 4, 5]), pts=st.sampled_from([0, 0, 0, 1, 2]),
          layout=st.sampled_from([1, 2, 1, 2, 0, 3, 4]))
    def mapping(self, mesh, fn, pts, layout):
        self.do(dict(op='mapping', mesh=mesh, fn=fn, pts=pts, layout=layout, shift=(mesh + fn) % 3))

    @rule(mesh=st.integers(0, 1), fn=st.sampled_from([1, 2, 3]), layout=st.sampled_from([1, 2]))
    def mapping_again(self, mesh, fn, layout):
        self.do(dict(op='mapping', mesh=mesh, fn=fn, pts=0, layout=layout))

    @rule(mesh=st.integers(0, 3), elem=st.integers(0, 7), pts=st.integers(0, 3), i=st.integers(0, 5))
    def lbasis(self, mesh, elem, pts, i):
        self.do(dict(op='lbasis', mesh=mesh, elem=elem, pts=pts, i=i))

    @rule(mesh=st.integers(0, 3), elem=st.integers(0, 7), seq=st.lists(st.integers(0, 3), min_size=3, max_size=3), i=st.integers(0, 5))
    def lbasis_sequence(self, mesh, elem, seq, i):
        self.do(dict(op='lbasis', mesh=mesh, elem=elem, pts=seq[0], seq=seq, i=i))

    # a basis object a user keeps (to assemble again later) must keep meaning the same thing whatever else was evaluated meanwhile
    @rule(mesh=st.integers(0, 3), elem=st.integers(0, 7), basis=st.integers(0, 1))
    def keep_basis(self, mesh, elem, basis):
        self.do(dict(op='keep_basis', mesh=mesh, elem=elem, basis=basis))

    @rule(mesh=st.integers(0, 3), elem=st.integers(0, 7), basis=st.integers(0, 1), i=st.integers(0, 5))
    def keep_evaluate_reuse(self, mesh, elem, basis, i):
        self.do(dict(op='keep_basis', mesh=mesh, elem=elem, basis=basis))
        self.do(dict(op='lbasis', mesh=mesh, elem=elem, pts=3, i=i))
        self.do(dict(op='reuse_basis', mesh=0, basis=2))

    @rule(basis=st.integers(0, 2))
    def reuse_basis(self, basis):
        self.do(dict(op='reuse_basis', mesh=0, basis=basis))

    @rule(op=st.sampled_from(['assemble', 'assemble', 'interpolate', 'probes']), mesh=INT, elem=INT, basis=INT,
          picks=st.lists(INT, min_size=1, max_size=5))
    def use_basis(self, op, mesh, elem, basis, picks):
        self.do(dict(op=op, mesh=mesh, elem=elem, basis=basis, picks=picks))

    @rule(mesh=INT, kind=INT, picks=st.lists(INT, min_size=1, max_size=4))
    def mesh_operation(self, mesh, kind, picks):
        self.do(dict(op='mesh_op', mesh=mesh, kind=kind, picks=picks))

    # tag a mesh, derive a relative of the tagged mesh, tag the relative differently: every mesh keeps its own named sets
    @rule(mesh=INT, picks=st.lists(INT, min_size=2, max_size=3), picks2=st.lists(INT, min_size=2, max_size=3), rel=st.sampled_from([2, 3, 6]))
    def tag_relatives(self, mesh, picks, picks2, rel):
        self.do(dict(op='mesh_op', mesh=mesh, kind=6, picks=picks))
        self.do(dict(op='mesh_op', mesh='last', kind=rel, picks=picks))
        self.do(dict(op='mesh_op', mesh='last', kind=6, picks=picks2))
        self.do(dict(op='touch', mesh=2, attr=3))

    # one element instance used on a mesh, then on another mesh that shares the point array
    @rule(mesh=INT, elem=INT)
    def element_on_meshes_sharing_points(self, mesh, elem):
        self.do(dict(op='assemble', mesh=mesh, elem=elem, basis=0, picks=[0]))
        self.do(dict(op='mesh_op', mesh=mesh, kind=10, picks=[0]))
        self.do(dict(op='assemble', mesh='last', elem=elem, basis=0, picks=[0]))

    @rule(mesh=INT, picks=st.lists(INT, min_size=1, max_size=3))
    def adaptive(self, mesh, picks):
        self.do(dict(op='mesh_op', mesh=mesh, kind=1, picks=picks))

    @rule(mesh=INT)
    def finder(self, mesh):
        self.do(dict(op='finder', mesh=mesh))

    @rule(mesh=INT, solver=INT, kw=INT)
    def solve(self, mesh, solver, kw):
        self.do(dict(op='solve', mesh=mesh, solver=solver, kw=kw))

    # a mesh whose cells are not ascending (oriented), then another mesh constructed on its arrays
    @rule(mesh=INT)
    def construct_on_arrays_of_oriented(self, mesh):
        self.do(dict(op='mesh_op', mesh=mesh, kind=7, picks=[0]))
        self.do(dict(op='mesh_op', mesh='last', kind=11, picks=[0]))
        self.do(dict(op='touch', mesh=2, attr=1))

    # one solver object, two different systems of equal size one after the other
    @rule(mesh=INT, solver=INT)
    def solver_two_systems(self, mesh, solver):
        self.do(dict(op='solve', mesh=mesh, solver=solver, kw=0))
        self.do(dict(op='solve', mesh=mesh, solver=solver, kw=0, alt=1))

    @rule(mesh=INT, which=INT)
    def boundary_conditions(self, mesh, which):
        self.do(dict(op='bc', mesh=mesh, which=which))


def machine(tier, sink, agg):
    return make_machine(PoolMachine, 'history', sink, agg, new_state, apply)


PROP = Prop(
    'C15', 'no hidden state: history-independent results, operands never mutated',
    rule=('Hypothesis rule-based state machine over a pool of long-lived objects: two generated meshes of one cell type (one '
          'possibly second-order/curved) plus every mesh produced by a mesh operation, SHARED element instances (the same '
          'instance on several meshes and at several point sets: Lagrange, hierarchical p, H(div)/H(curl), ElementGlobal family), '
          'the meshes\' cached mappings and finders, solver closures from every factory. Rules: read a lazy mesh attribute; '
          'evaluate F/DF/detDF/invDF/G/detDG at point arrays drawn from a small pool (equal size, equal bytes in another shape, '
          'shared first coordinates); lbasis of a shared element; build a cell/facet/subset basis with pooled mesh and element and '
          'assemble / interpolate / probe; refine (uniform, adaptive), transform, restrict, tag, orient; condense/enforce/penalize '
          'without overwrite; solve with a pooled closure and varying solve-time keywords; element_finder. After every rule the '
          'result on the pooled objects must equal the result of the same rule on objects rebuilt from their recipes, and operand '
          'checksums must be unchanged. The recorded step list is the replay. Non-trivial: >= 3 rules with some object reused'),
    assumptions=['bit-for-bit equality for deterministic array code; 1e-7 relative for the ElementGlobal family (per-mesh Vandermonde '
                 'inversion) and for iterative/eigen solvers (run at rtol 1e-12, eigenvectors compared up to sign)',
                 'the reseeding of the global NumPy RNG by tetrahedral adaptive refinement is observed and reported as a class, not judged',
                 'pool of at most four meshes; histories of bounded length'],
    subs=[Sub('history', history_body(new_state, apply), machine=machine, quick=1000, thorough=15000, steps=(12, 30))],
    design_ref='DESIGN.md section 6, C15')
PROP.rule += ('. Added in round 2: rules keep_basis / reuse_basis (a basis object kept by the user must give the same matrices after other evaluations of the same element instance, e.g. at other points of the shape of its quadrature points) and lbasis_sequence (three point sets sharing coordinate rows in a row on one element instance).')
