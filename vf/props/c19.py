"""C19 -- vector, composite and block structures agree with their components."""
import numpy as np
from hypothesis import strategies as st

from ..core import Prop, Reject, Sub, Unsupported
from ..gen import elements as ge
from ..gen import integrands as gi
from ..gen import meshes as gm

VALS = np.array([1.0, -1.0, 0.5, -2.0, 3.0, 0.25, 1.5])


def nonglobal(e):
    return not e['family'].startswith('global')


@st.composite
def composite_elem(draw, kind, tier):
    """components with different DOF layouts are the interesting ones"""
    n = draw(st.integers(2, 3))
    comps = []
    for _ in range(n):
        c = draw(ge.simple(kind, pred=nonglobal, exclude=('ElementTriN3', 'ElementHexC1')))
        if ge.R[c['cls']]['scalar'] and draw(st.integers(0, 4)) == 0:
            c = {'cls': 'ElementVector', 'of': c}
        comps.append(c)
    return {'cls': 'ElementComposite', 'of': comps}


@st.composite
def case_split(draw, tier):
    desc = draw(gm.mesh(max_cells=8, max_cells_3d=4, order2=True, curved=True))
    kind = gm.mesh_kind(desc)
    if draw(st.booleans()):
        el = draw(composite_elem(kind, tier))
    else:
        base = draw(ge.simple(kind, pred=lambda e: nonglobal(e) and e['scalar']))
        el = {'cls': 'ElementVector', 'of': base}
        nd = draw(st.sampled_from([None, None, 1, 2, 3]))
        if nd:
            el['dim'] = nd
    return dict(mesh=desc, elem=el, basis=draw(st.sampled_from(['cell', 'cell', 'bnd', 'cellsub', 'facetsub', 'interior0', 'interior1'])),
                seed=draw(st.integers(0, 10**6)), picks=draw(st.lists(st.integers(0, 10**4), min_size=1, max_size=5)))


def fields_of(f):
    out = {}
    for a in gi.ATTRS:
        v = getattr(f, a, None)
        if v is not None:
            out[a] = np.asarray(v)
    return out


def body_split(c, ctx):
    from skfem import CellBasis, FacetBasis
    from ..cases import build_element, build_mesh
    from ..gen.bases import facet_supported
    desc = c['mesh']
    kind = gm.mesh_kind(desc)
    m = build_mesh(desc)
    eld = c['elem']
    if c['basis'] not in ('cell', 'cellsub') and (not facet_supported(kind, eld) or kind == 'line'):
        raise Unsupported('facet basis unsupported')
    e = build_element(eld)
    io = 3
    # the basis to be split may live on a subset of cells / facets or on one side of the interior facets: its component bases
    # (the ones split() hands out, and the ones built here for comparison) live on the same entities
    from skfem import InteriorFacetBasis
    picks = c.get('picks') or [0]
    bkind = c['basis']
    if bkind == 'cellsub':
        sub = np.array(sorted({int(q) % m.nelements for q in picks}), dtype=np.int32)
        B = lambda mm, ee, intorder: CellBasis(mm, ee, intorder=intorder, elements=sub)                       # noqa
    elif bkind == 'facetsub':
        bf_ = m.boundary_facets()
        sub = np.array(sorted({int(bf_[int(q) % len(bf_)]) for q in picks}), dtype=np.int32)
        B = lambda mm, ee, intorder: FacetBasis(mm, ee, intorder=intorder, facets=sub)                        # noqa
    elif bkind in ('interior0', 'interior1'):
        if not np.any(m.f2t[1] != -1):
            raise Reject()
        B = lambda mm, ee, intorder: InteriorFacetBasis(mm, ee, intorder=intorder, side=int(bkind[-1]))          # noqa
    else:
        B = CellBasis if bkind == 'cell' else FacetBasis
    basis = B(m, e, intorder=io)
    lab = ge.label(eld)
    sig = dict(wrapper=eld['cls'], basis=c['basis'])
    comps = eld['of'] if eld['cls'] == 'ElementComposite' else [eld['of']] * (eld.get('dim') or m.dim())
    from ..cases import build_element as be
    layouts = {tuple(bool(x) for x in (be(cc).nodal_dofs, be(cc).facet_dofs, be(cc).edge_dofs, be(cc).interior_dofs)) for cc in comps}
    ctx.cls(desc['cls'], eld['cls'], c['basis'], f'ncomp={len(comps)}')
    ctx.nt(len(layouts) >= 2 or eld['cls'] == 'ElementVector')
    rng = np.random.RandomState(c['seed'])
    x = VALS[rng.randint(0, len(VALS), basis.N)]
    ix = basis.split_indices()
    # the documented splitting is a partition of the DOF numbers
    allix = np.concatenate(ix) if len(ix) else np.array([], dtype=int)
    if len(ix) != len(comps):
        ctx.fail('split_count', f'{len(ix)} index sets for {len(comps)} components | {lab}', **sig)
        return
    if len(allix) != basis.N or len(np.unique(allix)) != basis.N:
        ctx.fail('split_partition', f'{len(allix)} indices, {len(np.unique(allix))} distinct, N={basis.N} | {lab}', **sig)
        return
    whole = basis.interpolate(x)
    parts = basis.split(x)
    if len(parts) != len(comps):
        ctx.fail('split_count', 'split()', **sig)
        return
    for k, cd in enumerate(comps):
        bk = B(m, build_element(cd), intorder=io)
        if len(ix[k]) != bk.N:
            ctx.fail('split_sizes', f'component {k}: {len(ix[k])} indices, component basis has N={bk.N} | {lab}', **sig)
            return
        if not np.array_equal(parts[k][0], x[ix[k]]):
            ctx.fail('split_values', f'component {k}', **sig)
        fk = bk.interpolate(x[ix[k]])
        # the component basis the library itself hands out with split(): same points (its quadrature follows the whole basis)
        fl = parts[k][1].interpolate(parts[k][0])
        for a, w_ in fields_of(fk).items():
            g = fields_of(fl).get(a)
            if g is None or g.shape != w_.shape or not np.allclose(g, w_, rtol=0, atol=1e-11 * (1 + np.abs(w_).max())):
                ctx.fail('split_basis_interpolate', f'{a} of component {k} of {lab}: the basis returned by split() interpolates the split '
                         f'vector differently from a component basis with the quadrature of the whole '
                         f'({"shape " + str(None if g is None else g.shape) + " vs " + str(w_.shape) if g is None or g.shape != w_.shape else np.abs(g - w_).max()})', **sig)
                return
        if eld['cls'] == 'ElementComposite':
            fw = whole[k]
            got, want = fields_of(fw), fields_of(fk)
        else:
            got = {a: v[k] for a, v in fields_of(whole).items()}
            want = fields_of(fk)
        for a in want:
            if a not in got:
                ctx.fail('split_missing_field', f'{a} of component {k}', **sig)
                continue
            g, w_ = got[a], want[a]
            if g.shape != w_.shape or not np.allclose(g, w_, rtol=0, atol=1e-11 * (1 + np.abs(w_).max())):
                ctx.fail('split_interpolate', f'{a} of component {k} of {lab}: interpolating the whole differs from interpolating '
                         f'the split vector on the component basis by {np.abs(g - w_).max() if g.shape == w_.shape else "shape"}', **sig)
                return


# ------------------------------------------------------------------------------ block assembly
@st.composite
def case_blocks(draw, tier):
    desc = draw(gm.mesh(max_cells=8, max_cells_3d=3, order2=False))
    kind = gm.mesh_kind(desc)
    el = draw(composite_elem(kind, tier))
    tree = draw(gi.integrand(max_terms=4, allow_n=False, allow_param=False, allow_complex=False))
    return dict(mesh=desc, elem=el, tree=tree, how=draw(st.sampled_from(['composite', 'composite', 'basis_product'])),
                seed=draw(st.integers(0, 10**6)))


FIXED_ARITY = {2: lambda f: (lambda u1, u2, v1, v2, w: f(u1, u2, v1, v2, w)),
               3: lambda f: (lambda u1, u2, u3, v1, v2, v3, w: f(u1, u2, u3, v1, v2, v3, w))}


def body_blocks(c, ctx):
    from skfem import BilinearForm, CellBasis
    from ..cases import build_element, build_mesh
    desc = c['mesh']
    m = build_mesh(desc)
    eld = c['elem']
    comps = eld['of']
    n = len(comps)
    tree = c['tree']
    how = c['how']
    if how == 'basis_product' and any(cc['cls'] == 'ElementComposite' for cc in comps):
        how = 'composite'
    sig = dict(how=how)
    io = 3
    cbases = [CellBasis(m, build_element(cc), intorder=io) for cc in comps]
    if how == 'composite':
        basis = CellBasis(m, build_element(eld), intorder=io)
        ix = basis.split_indices()
    else:
        if n == 2:
            basis = cbases[0] * cbases[1]
        else:
            from skfem.assembly.basis.composite_basis import CompositeBasis
            basis = CompositeBasis(*cbases)
        off = np.cumsum([0] + [b.N for b in cbases])
        ix = [np.arange(off[k], off[k + 1]) for k in range(n)]
    lab = ge.label(eld)
    ctx.cls(desc['cls'], how, f'ncomp={n}')
    ctx.nt(True)

    def form(*a):
        return gi.eval_tree(tree, a[:n], a[n:2 * n], a[-1])
    S = BilinearForm(form).assemble(basis).toarray()
    if S.shape != (basis.N, basis.N):
        ctx.fail('block_shape', f'{S.shape}', **sig)
        return
    for a in range(n):          # test component (rows)
        for b in range(n):      # trial component (columns)
            sub = [t for t in tree if t['ucomp'] % n == b and t['vcomp'] % n == a]
            want = np.zeros((cbases[a].N, cbases[b].N))
            if sub:
                sub1 = [dict(t, ucomp=0, vcomp=0) for t in sub]

                def bform(u, v, w, sub1=sub1):
                    return gi.eval_tree(sub1, (u,), (v,), w)
                want = BilinearForm(bform).assemble(cbases[b], cbases[a]).toarray()
            got = S[np.ix_(ix[a], ix[b])]
            if got.shape != want.shape or not np.allclose(got, want, rtol=0, atol=1e-11 * (1 + np.abs(want).max())):
                ctx.fail('block_assembly', f'block (test {a}, trial {b}) of {lab} differs from the separately assembled component '
                         f'form by {np.abs(got - want).max() if got.shape == want.shape else "shape"}', **sig)
                return
            # Form.block(trial component, test component): the coupled form restricted to one pair of components, assembled on
            # the component bases
            if n in FIXED_ARITY:
                try:
                    gotb = BilinearForm(FIXED_ARITY[n](form)).block(b, a).assemble(cbases[b], cbases[a]).toarray()
                except (ValueError, IndexError, TypeError, AttributeError) as e:
                    # the zero placeholders have the shape of the given component: integrands that index a component of another
                    # tensor rank cannot be evaluated on them (limitation of the mechanism, loud)
                    ctx.cls('form_block_unsupported:' + type(e).__name__)
                    continue
                ctx.cls('form_block')
                if gotb.shape != want.shape or not np.allclose(gotb, want, rtol=0, atol=1e-11 * (1 + np.abs(want).max())):
                    ctx.fail('form_block', f'form.block({b}, {a}) of {lab} on the component bases differs from the component form by '
                             f'{np.abs(gotb - want).max() if gotb.shape == want.shape else "shape"}', **sig)
                    return


# ------------------------------------------------------------------------------ vector == composite of copies
@st.composite
def case_vec(draw, tier):
    desc = draw(gm.mesh(max_cells=8, max_cells_3d=3, order2=False))
    kind = gm.mesh_kind(desc)
    base = draw(ge.simple(kind, pred=lambda e: nonglobal(e) and e['scalar']))
    return dict(mesh=desc, base=base, coef=draw(st.lists(st.sampled_from([1.0, -1.0, 0.5, 2.0, 0.0]), min_size=9, max_size=9)))


def body_vec(c, ctx):
    from skfem import BilinearForm, CellBasis
    from ..cases import build_element, build_mesh
    m = build_mesh(c['mesh'])
    d = m.dim()
    base = c['base']
    ev = build_element({'cls': 'ElementVector', 'of': base})
    ec = build_element({'cls': 'ElementComposite', 'of': [base] * d})
    bv, bc = CellBasis(m, ev, intorder=3), CellBasis(m, ec, intorder=3)
    C = np.array(c['coef'])[: d * d].reshape(d, d)
    ctx.cls(c['mesh']['cls'], base['cls'])
    ctx.nt(True)
    has_grad = getattr(bv.basis[0][0], 'grad', None) is not None

    def fv(u, v, w):
        out = 0
        for a in range(d):
            for b in range(d):
                out = out + C[a, b] * u.value[b] * v.value[a]
                if has_grad:
                    out = out + C[b, a] * u.grad[b][0] * v.value[a]
        return out

    def fc(*a):
        u, v = a[:d], a[d:2 * d]
        out = 0
        for p in range(d):
            for q in range(d):
                out = out + C[p, q] * u[q].value * v[p].value
                if has_grad:
                    out = out + C[q, p] * u[q].grad[0] * v[p].value
        return out
    Av = BilinearForm(fv).assemble(bv).toarray()
    Ac = BilinearForm(fc).assemble(bc).toarray()
    iv, ic = bv.split_indices(), bc.split_indices()
    for a in range(d):
        for b in range(d):
            g, w_ = Av[np.ix_(iv[a], iv[b])], Ac[np.ix_(ic[a], ic[b])]
            if g.shape != w_.shape or not np.allclose(g, w_, rtol=0, atol=1e-12 * (1 + np.abs(w_).max())):
                ctx.fail('vector_vs_composite', f'{base["cls"]}: block ({a},{b}) differs', elem=base['cls'])
                return


_CONV = {}


def convention_first_is_test():
    """the axis order of local matrices, read off a rectangular probe (P2 trial, P1 test on one triangle): whatever
    local_shape announces there is required of square local matrices too"""
    if 'v' not in _CONV:
        import skfem
        from skfem import BilinearForm, CellBasis
        m = skfem.MeshTri()
        ub = CellBasis(m, skfem.ElementTriP2(), intorder=2)
        vb = CellBasis(m, skfem.ElementTriP1(), intorder=2)
        ls = tuple(BilinearForm(lambda u, v, w: u * v).elemental(ub, vb).local_shape)
        _CONV['v'] = ls == (vb.Nbfun, ub.Nbfun)
    return _CONV['v']


# ------------------------------------------------------------------------------ lists of bases, COOData algebra, bmat
@st.composite
def case_lists(draw, tier):
    desc = draw(gm.mesh(max_cells=10, max_cells_3d=4, order2=False))
    kind = gm.mesh_kind(desc)
    eu = draw(ge.simple(kind, pred=nonglobal, exclude=('ElementTriN3',)))
    ev = draw(ge.simple(kind, pred=nonglobal, exclude=('ElementTriN3',))) if draw(st.booleans()) else eu
    nc = len(desc['t'][0])
    nparts = draw(st.integers(1, min(4, nc)))
    assign = draw(st.lists(st.integers(0, nparts - 1), min_size=nc, max_size=nc))
    tree = draw(gi.integrand(max_terms=2, allow_n=False, allow_param=False, allow_complex=False))
    return dict(mesh=desc, eu=eu, ev=ev, assign=assign, nparts=nparts, tree=tree, seed=draw(st.integers(0, 10**6)),
                widths=draw(st.lists(st.integers(1, 5), min_size=2, max_size=5)))


def body_lists(c, ctx):
    import skfem
    from skfem import BilinearForm, CellBasis, FacetBasis, Functional, InteriorFacetBasis, LinearForm, asm
    from skfem.utils import bmat
    from ..cases import build_element, build_mesh
    from ..gen.bases import facet_supported
    desc = c['mesh']
    kind = gm.mesh_kind(desc)
    m = build_mesh(desc)
    eu, ev = c['eu'], c['ev']
    tree = c['tree']
    rect = eu != ev
    sig = dict(rect=rect)
    parts = [np.array([k for k, a in enumerate(c['assign']) if a == p], dtype=np.int32) for p in range(c['nparts'])]
    parts = [p for p in parts if len(p)]
    ctx.cls(desc['cls'], f'parts={len(parts)}', 'rect' if rect else 'square')
    ctx.nt(len(parts) >= 2 or rect)
    io = 3
    ub = CellBasis(m, build_element(eu), intorder=io)
    vb = CellBasis(m, build_element(ev), intorder=io) if rect else ub
    rng = np.random.RandomState(c['seed'])

    def form2(u, v, w):
        return gi.eval_tree(tree, (u,), (v,), w)

    def form1(v, w):
        return gi.eval_tree(tree, (v,), (v,), w) * 0 + gi.eval_coef(tree[0]['coef'], w) * gi.comps(v.value)[0]

    def form0(w):
        return gi.eval_coef(tree[0]['coef'], w)
    A = BilinearForm(form2).assemble(ub, vb)
    Ad = A.toarray()
    ubs = [CellBasis(m, build_element(eu), intorder=io, elements=p) for p in parts]
    vbs = [CellBasis(m, build_element(ev), intorder=io, elements=p) for p in parts] if rect else ubs
    # ---- asm over a partition == assembly on the whole
    b = LinearForm(form1).assemble(vb)
    bl = asm(LinearForm(form1), vbs)
    ctx.close('asm_list_linear', np.asarray(bl), b, 1e-11, 1 + np.abs(b).max(), **sig)
    J = Functional(form0).assemble(ub)
    Jl = asm(Functional(form0), ubs)
    ctx.close('asm_list_functional', float(Jl), float(J), 1e-11, 1 + abs(J), **sig)
    if not rect:
        Al = asm(BilinearForm(form2), ubs)
        ctx.close('asm_list_bilinear', Al.toarray(), Ad, 1e-11, 1 + np.abs(Ad).max(), **sig)
    Apairs = sum(BilinearForm(form2).assemble(ubs[k], vbs[k]).toarray() for k in range(len(parts)))
    ctx.close('partition_sum', Apairs, Ad, 1e-11, 1 + np.abs(Ad).max(), **sig)
    # ---- the same with a coefficient handed over as a raw DOF vector (each block interpolates it on its own cells)
    cvec = VALS[rng.randint(0, len(VALS), vb.N)]

    def wform1(v, w):
        return gi.comps(w['cf'].value)[0] * gi.comps(v.value)[0]

    def wform0(w):
        return gi.comps(w['cf'].value)[0] ** 2
    bw = LinearForm(wform1).assemble(vb, cf=cvec.copy())
    bwl = asm(LinearForm(wform1), vbs, cf=cvec.copy())
    ctx.close('asm_list_vector_parameter', np.asarray(bwl), bw, 1e-11, 1 + np.abs(bw).max(), **sig)
    Jw = Functional(wform0).assemble(vb, cf=cvec.copy())
    Jwl = asm(Functional(wform0), vbs, cf=cvec.copy())
    ctx.close('asm_list_vector_parameter', float(Jwl), float(Jw), 1e-11, 1 + abs(Jw), **sig)
    # ---- COOData algebra
    coo = BilinearForm(form2).elemental(ub, vb)
    ctx.close('coo_toarray', coo.toarray(), Ad, 1e-12, 1 + np.abs(Ad).max(), **sig)
    ctx.close('coo_tocsr', coo.tocsr().toarray(), Ad, 1e-12, 1 + np.abs(Ad).max(), **sig)
    c2 = coo + coo
    ctx.close('coo_add', c2.toarray(), 2 * Ad, 1e-12, 1 + np.abs(Ad).max(), **sig)
    if len(parts) >= 2:
        cs = BilinearForm(form2).elemental(ubs[0], vbs[0]) + BilinearForm(form2).elemental(ubs[1], vbs[1])
        want = (BilinearForm(form2).assemble(ubs[0], vbs[0]) + BilinearForm(form2).assemble(ubs[1], vbs[1])).toarray()
        ctx.close('coo_add_parts', cs.toarray(), want, 1e-12, 1 + np.abs(want).max(), **sig)
    x = VALS[rng.randint(0, len(VALS), ub.N)]
    if rect:
        y = coo.dot(x)
        want = Ad @ x
        if np.asarray(y).shape != want.shape:
            ctx.fail('coo_dot_rectangular', f'dot(x) has shape {np.asarray(y).shape}, A @ x has {want.shape}', **sig)
        else:
            ctx.close('coo_dot_rectangular', y, want, 1e-11, 1 + np.abs(Ad).sum(1).max() * np.abs(x).max(), **sig)
    if not rect:
        y = coo.dot(x)
        ctx.close('coo_dot', y, Ad @ x, 1e-11, 1 + np.abs(Ad).sum(1).max() * np.abs(x).max(), **sig)
        D = np.unique(rng.randint(0, ub.N, max(1, ub.N // 3)))
        yD = coo.dot(x, D=D)
        want = Ad @ x
        want[D] = x[D]
        ctx.close('coo_dot_D', yD, want, 1e-11, 1 + np.abs(Ad).sum(1).max() * np.abs(x).max(), **sig)
    # local matrices: scatter of tolocal() through element_dofs reproduces the assembled matrix under the
    # axis order that local_shape announces
    loc = coo.tolocal()
    back = coo.fromlocal(loc)
    if not np.array_equal(back.data, coo.data):
        ctx.fail('coo_fromlocal_roundtrip', '', **sig)
    ls = tuple(coo.local_shape)
    Nu, Nv = ub.Nbfun, vb.Nbfun
    if loc.shape != (ub.nelems,) + ls:
        ctx.fail('coo_local_shape', f'{loc.shape} vs {(ub.nelems,) + ls}', **sig)
    elif ls not in ((Nv, Nu), (Nu, Nv)):
        ctx.fail('coo_local_shape', f'local_shape {ls} is neither (N_test, N_trial) nor (N_trial, N_test)', **sig)
    else:
        first_is_test = (ls == (Nv, Nu)) if Nu != Nv else convention_first_is_test()
        S = np.zeros_like(Ad)
        for k in range(ub.nelems):
            L = loc[k] if first_is_test else loc[k].T
            np.add.at(S, (vb.element_dofs[:, k][:, None], ub.element_dofs[:, k][None, :]), L)
        if not np.allclose(S, Ad, rtol=0, atol=1e-11 * (1 + np.abs(Ad).max())):
            ctx.fail('coo_tolocal_layout', f'scattering tolocal() with local_shape={ls} read as '
                     f'({"test, trial" if first_is_test else "trial, test"}) does not reproduce the assembled matrix '
                     f'(N_test={Nv}, N_trial={Nu}); max diff {np.abs(S - Ad).max():.3e}', **sig)
    # inverse of a block-diagonal (DG) mass-like matrix
    if kind != 'wedge':
        dg = {'cls': 'ElementDG', 'of': eu}
        bd = CellBasis(m, build_element(dg), intorder=io + 1)

        def mform(u, v, w):
            s = 0
            for A_, B_ in zip(gi.comps(u.value), gi.comps(v.value)):
                s = s + A_ * B_
            return s + 0.25 * gi.comps(u.value)[0] * gi.comps(v.value)[-1]
        cm = BilinearForm(mform).elemental(bd)
        Md = cm.toarray()
        if np.linalg.cond(Md) < 1e10:
            inv = cm.inverse().toarray()
            want = np.linalg.inv(Md)
            ctx.close('coo_inverse', inv, want, 1e-8, 1 + np.abs(want).max(), **sig)
    # facet-local matrices summed to cells
    if facet_supported(kind, eu) and kind not in ('line',) and not rect:
        fb = FacetBasis(m, build_element(eu), intorder=io)
        cf = BilinearForm(form2).elemental(fb)
        try:
            lc = cf.tolocal(basis=fb)
        except NotImplementedError:
            lc = None
        if lc is not None:
            Af = BilinearForm(form2).assemble(fb).toarray()
            S = np.zeros_like(Af)
            cb0 = CellBasis(m, build_element(eu), intorder=io)
            fit = convention_first_is_test()
            for k in range(m.nelements):
                L = lc[k] if fit else lc[k].T
                np.add.at(S, (cb0.element_dofs[:, k][:, None], cb0.element_dofs[:, k][None, :]), L)
            if not np.allclose(S, Af, rtol=0, atol=1e-11 * (1 + np.abs(Af).max())):
                ctx.fail('coo_tolocal_facets', 'facet-local matrices summed over the facets of each cell do not reproduce the '
                         'assembled boundary matrix', **sig)
    # ---- bmat block offsets
    widths = c['widths']
    import scipy.sparse as sp
    blocks = [[sp.csr_matrix(np.ones((2, w_))) for w_ in widths]]
    B = bmat(blocks)
    want = np.cumsum(widths)[:-1].tolist()
    if list(B.blocks) != want:
        ctx.fail('bmat_blocks', f'widths {widths}: blocks={list(B.blocks)} expected {want}', **sig)
    if B.shape != (2, sum(widths)):
        ctx.fail('bmat_shape', '', **sig)
    # ---- products of trial/test lists (two-sided interior facets)
    inner = np.nonzero(m.f2t[1] != -1)[0]
    if len(inner) and facet_supported(kind, eu) and kind != 'line' and not rect:
        e0 = {'cls': 'ElementDG', 'of': eu}
        sides = [InteriorFacetBasis(m, build_element(e0), intorder=io, side=s) for s in (0, 1)]

        def jform(u, v, w):
            su = (-1.0) ** w.idx[0]
            sv = (-1.0) ** w.idx[1]
            return su * sv * gi.comps(u.value)[0] * gi.comps(v.value)[0]
        Jm = asm(BilinearForm(jform), sides, sides).toarray()
        N = sides[0].N
        xu = VALS[rng.randint(0, len(VALS), N)]
        xv = VALS[rng.randint(0, len(VALS), N)]
        u0, u1 = gi.comps(sides[0].interpolate(xu).value)[0], gi.comps(sides[1].interpolate(xu).value)[0]
        v0, v1 = gi.comps(sides[0].interpolate(xv).value)[0], gi.comps(sides[1].interpolate(xv).value)[0]
        want = float(np.sum((u0 - u1) * (v0 - v1) * sides[0].dx))
        got = float(xv @ Jm @ xu)
        ctx.close('asm_list_product', got, want, 1e-10, 1 + abs(want) + float(np.abs(xv) @ np.abs(Jm) @ np.abs(xu)), **sig)


PROP = Prop(
    'C19', 'vector, composite and block structures agree with their components',
    rule=('generated mesh x ElementVector (incl. explicit component counts) / ElementComposite of 2-3 components with different '
          'DOF layouts: interpolating the whole == interpolating each split vector on its component basis (all delivered fields; '
          'cell and boundary bases), split indices partition the DOFs; a coupling form from the integrand grammar assembled on the '
          'composite basis (ElementComposite or basis products *) == the separately assembled component forms block by block '
          '(rows test component, columns trial component); ElementVector == ElementComposite of copies; asm over the bases of '
          'a random partition of the cells == assembly on the whole (linear, functional, bilinear, products of two-sided facet '
          'lists against the jump form); COOData: +, toarray, tocsr, dot (with D), tolocal/fromlocal round trip, scatter of '
          'tolocal() under the announced local_shape for square and rectangular forms, inverse() of DG blocks, facet tolocal; '
          'bmat block offsets for 2-5 block columns. Non-trivial: components with different entity layouts, rectangular local '
          'matrices, or a partition with >= 2 parts'),
    assumptions=['split_bases rebuilds whole-mesh bases: subset bases are not compared (documented behaviour)',
                 'ElementGlobal family and ElementTriN3 excluded from composites (per-cell Vandermonde cost / shared points only)',
                 'the local-matrix layout is judged convention-agnostically: the axis order announced by local_shape must reproduce the matrix'],
    subs=[Sub('split', body_split, strategy=case_split, quick=500, thorough=10000),
          Sub('blocks', body_blocks, strategy=case_blocks, quick=400, thorough=8000),
          Sub('vector', body_vec, strategy=case_vec, quick=250, thorough=4000),
          Sub('lists', body_lists, strategy=case_lists, quick=400, thorough=8000)],
    design_ref='DESIGN.md section 6, C19')
PROP.rule += ('. Added in round 2: BilinearForm(form).block(b, a) assembled on the component bases == the component form.')
