"""C13 -- adaptive refinement: conforming and domain-preserving for every marked set and history."""
import itertools

import numpy as np
from hypothesis import strategies as st
from hypothesis.stateful import initialize, precondition, rule

from ..core import Prop, Reject, Sub
from ..gen import meshes as gm
from ..gen import tags as gt
from ..stateful import HistoryMachine, history_body, make_machine

# ------------------------------------------------------------------------------ exhaustive part
BASES = {
    # name: (cls, p, t)
    'tri2': ('MeshTri1', [[0., 1., 0., 1.], [0., 0., 1., 1.]], [[0, 1], [1, 2], [2, 3]]),
    'tri_sym4': ('MeshTri1', [[0., 1., 1., 0., .5], [0., 0., 1., 1., .5]], [[0, 1, 2, 0], [1, 2, 3, 3], [4, 4, 4, 4]]),
    'tri_fan6': ('MeshTri1', [[0., 2., 3., 2., 0., -1., 1.], [0., 0., 1.5, 3., 3., 1.5, 1.5]],
                 [[0, 1, 2, 3, 4, 5], [1, 2, 3, 4, 5, 0], [6, 6, 6, 6, 6, 6]]),
    'tri_strip5': ('MeshTri1', [[0., 1., 2., 3., 0.5, 1.5, 2.5], [0., 0., 0., 0., 1., 1., 1.]],
                   [[0, 1, 1, 2, 2], [1, 5, 2, 6, 3], [4, 4, 5, 5, 6]]),
    'tri_renum8': ('MeshTri1', [[1., 0., .5, 0., 1., .5, 0., 1., .5], [1., 1., 1., 0., 0., 0., .5, .5, .5]],
                   [[3, 5, 5, 4, 6, 8, 8, 7], [5, 8, 4, 7, 8, 2, 7, 0], [6, 6, 8, 8, 1, 1, 2, 2]]),
    # isosceles cells whose two LONGEST edges are bitwise equal, apex with the middle vertex number (ties in the longest-edge rule)
    'tri_isosceles4': ('MeshTri1', [[0., 1., 2., 3., 4., 5.], [0., 2., 0., 2., 0., 2.]], [[0, 1, 2, 3], [1, 2, 3, 4], [2, 3, 4, 5]]),
    'tet1': ('MeshTet1', [[0., 1., 0., 0.], [0., 0., 1., 0.], [0., 0., 0., 1.]], [[0], [1], [2], [3]]),
    'tet2': ('MeshTet1', [[0., 1., 0., 0., 1.], [0., 0., 1., 0., 1.], [0., 0., 0., 1., 1.]], [[0, 1], [1, 2], [2, 3], [3, 4]]),
    'tet_cube5': ('MeshTet1', [[0., 0., 0., 1., 0., 1., 1., 1.], [0., 0., 1., 0., 1., 0., 1., 1.], [0., 1., 0., 0., 1., 1., 0., 1.]],
                  [[0, 3, 2, 2, 1], [1, 5, 5, 4, 2], [2, 6, 6, 7, 3], [3, 7, 7, 1, 5]]),  # overwritten below by the library's own default
    'line5': ('MeshLine1', [[0., .25, 1., 1.5, 3., 3.5]], [[0, 1, 2, 3, 4], [1, 2, 3, 4, 5]]),
    'line_unsorted4': ('MeshLine1', [[2., 0., 1., 3., .5]], [[1, 4, 2, 0], [4, 2, 0, 3]]),
    'line_reversed3': ('MeshLine1', [[0., 1., 2., 3.]], [[1, 2, 3], [0, 1, 2]]),
}


def base_desc(name):
    cls, p, t = BASES[name]
    if name == 'tet_cube5':
        import skfem
        m = skfem.MeshTet()
        p, t = m.p.tolist(), m.t.tolist()
    return dict(cls=cls, p=p, t=t, feat=[gm.KIND[cls], 'base:' + name])


def exhaustive_cases(tier):
    out = []
    for name in BASES:
        nc = len(BASES[name][2][0]) if name != 'tet_cube5' else 5
        for r in range(0, nc + 1):
            for sub in itertools.combinations(range(nc), r):
                out.append(dict(base=name, marked=list(sub), order='sorted'))
                if r >= 2 and tier == 'thorough':
                    out.append(dict(base=name, marked=list(sub)[::-1], order='reversed'))
    return out


def std_tags(nc):
    return dict(subdomains={'even': list(range(0, nc, 2)), 'first': [0]},
                boundaries={'all': dict(pool='boundary', picks=list(range(64)), ori=None)})


def _digest(m):
    import hashlib
    h = hashlib.sha256()
    parts = [m.p, m.t]
    for d in (m.boundaries or {}, m.subdomains or {}):
        for k in sorted(d):
            parts.append(np.asarray(d[k]))
    for a in parts:
        a = np.ascontiguousarray(a)
        h.update(str(a.dtype).encode() + str(a.shape).encode() + a.tobytes())
    return h.hexdigest()


def body_exhaustive(c, ctx):
    from ..cases import LogCapture, build_mesh, resolve_tags
    from ..oracle.refine import check_refinement
    desc = base_desc(c['base'])
    m = build_mesh(desc)
    mt, res = resolve_tags(m, std_tags(m.nelements))
    marked = np.array(c['marked'], dtype=np.int64)
    ctx.cls(c['base'], f'nmarked={len(marked)}')
    ctx.nt(0 < len(marked) < m.nelements)
    sig = dict(mesh=desc['cls'], base=c['base'])
    _ = mt.facets, mt.t2f, mt.boundary_facets()        # a mesh that has been looked at (tables cached) before it is refined
    h0 = _digest(mt)
    # the marked cells as users collect them: possibly naming a cell more than once (e.g. m.f2t[0, m.boundary_facets()])
    given = np.concatenate([marked, marked[:1], marked[-1:]]) if len(marked) % 2 == 1 else marked
    with LogCapture() as logs:
        new = mt.refined(given)
    check_refinement(ctx, mt, res, new, logs, sig, uniform_k=None, marked=marked)
    if len(marked) == 0 and new.nelements != mt.nelements:
        ctx.fail('empty_marked_changes_mesh', '', **sig)
    if _digest(mt) != h0:
        ctx.fail('operand_modified', 'refined(marked) changed the mesh it was applied to', **sig)
    elif not ctx.failures and mt.nelements <= 16 and desc['cls'] != 'MeshWedge1':
        # the refined-from mesh serves again (another strategy tried from the same starting point): a uniform step from it
        with LogCapture() as logs2:
            new2 = mt.refined()
        check_refinement(ctx, mt, res, new2, logs2, dict(sig, second='uniform_after_adaptive'), uniform_k=1)


# ------------------------------------------------------------------------------ histories
CAP = {'line': 400, 'tri': 1200, 'tet': 500}


class State:
    pass


def new_state(init, ctx):
    from ..cases import build_mesh, resolve_tags
    s = State()
    s.desc = init['mesh']
    s.kind = gm.mesh_kind(s.desc)
    m = build_mesh(s.desc)
    s.mesh, s.res = resolve_tags(m, init['tags'])
    s.nsteps = 0
    ctx.cls(s.desc['cls'])
    return s


def apply(s, step, ctx):
    from ..cases import LogCapture, resolve_tags
    from ..oracle.refine import check_refinement
    sig = dict(mesh=s.desc['cls'], op=step['op'])
    old = s.mesh
    if step['op'] == 'retag':
        import dataclasses
        base = dataclasses.replace(old, _boundaries=None, _subdomains=None)
        s.mesh, s.res = resolve_tags(base, step['tags'])
        return
    if step['op'] == 'back':
        # return to the mesh the last refinement started from (an adaptive loop that tries several markings from one state)
        if getattr(s, 'prev', None) is None:
            raise Reject()
        s.mesh, s.prev = s.prev, None
        ctx.cls('op:back')
        return
    if old.nelements > CAP[s.kind]:
        raise Reject()
    h0 = _digest(old)
    res_now = dict(subdomains={k: np.asarray(v) for k, v in (old.subdomains or {}).items()},
                   boundaries={k: (np.asarray(v), None) for k, v in (old.boundaries or {}).items()})
    with LogCapture() as logs:
        if step['op'] == 'adaptive':
            marked = []
            for k in step['picks']:
                k = int(k) % old.nelements
                if k not in marked:
                    marked.append(k)
            marked = np.array(marked, dtype=np.int64)
            given = marked
            if len(marked) and step['picks'] and int(step['picks'][0]) % 3 == 0:
                given = np.concatenate([marked, marked[:1]])          # a cell named twice
                ctx.cls('marked-with-repeats')
            new = old.refined(given)
            check_refinement(ctx, old, res_now, new, logs, sig, uniform_k=None, marked=marked)
            ctx.nt(0 < len(marked) < old.nelements)
        elif step['op'] == 'uniform':
            k = step.get('k', 1)
            if old.nelements * (2 ** old.dim()) ** k > CAP[s.kind]:
                raise Reject()
            new = old.refined(k) if k > 1 else old.refined()
            check_refinement(ctx, old, res_now, new, logs, sig, uniform_k=k)
        else:
            raise ValueError(step['op'])
    if _digest(old) != h0:
        ctx.fail('operand_modified', f'{step["op"]} refinement changed the mesh it was applied to', **sig)
    s.prev = old
    s.nsteps += 1
    ctx.cls(f'op:{step["op"]}')
    if s.nsteps >= 2:
        ctx.nt()
        ctx.cls('history>=2')
    s.mesh = new


class RefineMachine(HistoryMachine):
    @initialize(desc=gm.mesh(kinds=('line', 'tri', 'tet'), max_cells=10, max_cells_3d=4, order2=True, curved=False),
                data=st.data())
    def init_mesh(self, desc, data):
        tg = data.draw(gt.tags(len(desc['t'][0]), pools=('boundary', 'all')))
        self.start(dict(mesh=desc, tags=tg))

    @rule(picks=st.lists(st.integers(0, 10**5), min_size=0, max_size=8))
    def adaptive(self, picks):
        self.do(dict(op='adaptive', picks=picks))

    @rule(k=st.sampled_from([1, 1, 2]))
    def uniform(self, k):
        self.do(dict(op='uniform', k=k) if k > 1 else dict(op='uniform'))

    @rule()
    def back(self):
        self.do(dict(op='back'))

    @rule(data=st.data())
    def retag(self, data):
        if self.state is None or self.dead:
            return
        tg = data.draw(gt.tags(self.state.mesh.nelements, pools=('boundary', 'all')))
        self.do(dict(op='retag', tags=tg))


def machine(tier, sink, agg):
    return make_machine(RefineMachine, 'history', sink, agg, new_state, apply)


PROP = Prop(
    'C13', 'adaptive refinement: conforming, domain-preserving for every marked set and history',
    rule=('(a) complete enumeration of all marked subsets (2^n) of eleven small base meshes (triangles incl. equal-edge '
          'ties and arbitrary numbering, tetrahedra, segments incl. unsorted/reversed numbering) with subdomain and '
          'boundary tags; (b) Hypothesis rule-based state machine over (adaptive(marked picks), uniform, retag) histories '
          'starting from generated line/triangle/tetrahedron meshes of first and second order; after every step the '
          'geometric validity predicate of C12 with "every marked cell has >= 2 children", vertex identity and '
          'geometrically derived tag sets. Non-trivial: marked set is a proper non-empty subset, or step >= 2 of a history'),
    assumptions=['marked sets contain no duplicates (a set, as the property says); any order',
                 'cell-count caps (line 400, tri 1200, tet 500) bound a history; steps beyond the cap are rejected and counted',
                 'dropped tags require a logged warning; kept tags must be geometrically right'],
    subs=[Sub('exhaustive', body_exhaustive, cases=exhaustive_cases, max_shards=16),
          Sub('history', history_body(new_state, apply), machine=machine, quick=160, thorough=3000, steps=(6, 12))],
    design_ref='DESIGN.md section 6, C13')
