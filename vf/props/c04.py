"""C04 -- DOF numbering: gap-free, shared exactly along shared entities; locality of matrices."""
import numpy as np
from hypothesis import strategies as st

from ..core import Prop, Sub, Unsupported
from ..gen import elements as ge
from ..gen import meshes as gm


@st.composite
def real_case(draw, tier):
    big = tier == 'thorough'
    desc = draw(gm.mesh(max_cells=40 if big else 20, max_cells_3d=16 if big else 8, order2=True, curved=True))
    kind = gm.mesh_kind(desc)
    e1 = draw(ge.wrapped(kind, costly=big))
    e2 = draw(ge.wrapped(kind, costly=big)) if draw(st.booleans()) else None
    nc = len(desc['t'][0])
    sub = draw(st.lists(st.integers(0, nc - 1), min_size=1, max_size=nc, unique=True))
    return dict(mesh=desc, elem=e1, elem2=e2, subset=sub)


@st.composite
def synth_case(draw, tier):
    big = tier == 'thorough'
    desc = draw(gm.mesh(max_cells=60 if big else 24, max_cells_3d=24 if big else 10, order2=False))
    kind = gm.mesh_kind(desc)
    d = gm.DIM[kind]
    counts = dict(nodal=draw(st.integers(0, 3)), interior=draw(st.integers(0, 3)),
                  facet=draw(st.integers(0, 3)) if d >= 2 else 0,
                  edge=draw(st.integers(0, 3)) if d == 3 else 0)
    if sum(counts.values()) == 0:
        counts['nodal'] = 1
    return dict(mesh=desc, counts=counts)


def _flat(f):
    """weighted sum of all components of a DiscreteField value (or tuple of fields)"""
    if isinstance(f, tuple):
        return sum(_flat(g) * (k + 1) for k, g in enumerate(f))
    v = f.value if hasattr(f, 'value') else f
    v = np.asarray(v)
    while v.ndim > 2:
        w = np.arange(1, v.shape[0] + 1, dtype=float).reshape((-1,) + (1,) * (v.ndim - 1))
        v = (v * w).sum(0)
    return v


def check_tables(ctx, m, dofs, T, sig, element_counts):
    """checks (1)-(3) on a Dofs-like object with nodal/edge/facet/interior tables and element_dofs"""
    ed = dofs.element_dofs
    N = dofs.N
    nc = m.nelements
    d = m.dim()
    nn, ne, nf, ni = element_counts
    # (1) gap-free
    u = np.unique(ed)
    if len(u) != N or (N and (u[0] != 0 or u[-1] != N - 1)):
        ctx.fail('gapfree', f'N={N} unique={len(u)} range=({u.min() if len(u) else None},{u.max() if len(u) else None})', **sig)
        return
    # no DOF listed twice within a cell
    for c in range(nc):
        if len(set(ed[:, c].tolist())) != ed.shape[0]:
            ctx.fail('duplicate_in_cell', f'cell {c}', **sig)
            return
    # entity lookup through vertex sets
    fkey = {frozenset(int(v) for v in m.facets[:, f]): f for f in range(m.facets.shape[1])}
    ekey = {frozenset(int(v) for v in m.edges[:, e]): e for e in range(m.edges.shape[1])} if (d == 3 and ne) else {}
    nd, edf, fd, idf = dofs.nodal_dofs, dofs.edge_dofs, dofs.facet_dofs, dofs.interior_dofs
    if nd.shape != (nn, m.nvertices) or idf.shape != (ni, nc):
        ctx.fail('table_shape', f'nodal {nd.shape} interior {idf.shape}', **sig)
        return
    if d == 3 and ne and edf.shape != (ne, m.edges.shape[1]):
        ctx.fail('table_shape', f'edge table {edf.shape}, expected {(ne, m.edges.shape[1])}', **sig)
        return
    if d >= 2 and nf and fd.shape != (nf, m.facets.shape[1]):
        ctx.fail('table_shape', f'facet table {fd.shape}, expected {(nf, m.facets.shape[1])}', **sig)
        return
    # tables disjoint and covering
    parts = [nd.ravel()]
    if d == 3 and ne:
        parts.append(edf.ravel())
    if d >= 2 and nf:
        parts.append(fd.ravel())
    parts.append(idf.ravel())
    allt = np.concatenate(parts)
    if len(allt) != N or len(np.unique(allt)) != N:
        ctx.fail('tables_partition', f'tables hold {len(allt)} numbers, {len(np.unique(allt))} distinct, N={N}', **sig)
        return

    def cell_expected(c):
        s = set()
        for v in T.cells[c]:
            s |= set(nd[:, v].tolist())
        if d == 3 and ne:
            for k in T.cell_edges[c]:
                s |= set(edf[:, ekey[k]].tolist())
        if d >= 2 and nf:
            for k in T.cell_facets[c]:
                s |= set(fd[:, fkey[k]].tolist())
        s |= set(idf[:, c].tolist())
        return s
    # (3) per-cell numbering == union of the per-entity tables of the cell's entities
    for c in range(nc):
        if set(ed[:, c].tolist()) != cell_expected(c):
            ctx.fail('table_coherence', f'cell {c}: element_dofs {sorted(ed[:, c].tolist())} vs tables {sorted(cell_expected(c))}', **sig)
            return
    if ed.shape[0] != nn * len(T.cells[0]) + (ne * len(T.ledges) if d == 3 else 0) + (nf * len(T.lfacets) if d >= 2 else 0) + ni:
        ctx.fail('local_count', f'{ed.shape[0]} rows', **sig)
    # (2) sharing iff: DOF -> cells from element_dofs, versus entity -> cells from the cell list
    owners = {}
    for c in range(nc):
        for g in ed[:, c].tolist():
            owners.setdefault(g, set()).add(c)
    vcells = T.vertex_cells()
    for v in range(m.nvertices):
        for g in nd[:, v].tolist():
            if owners.get(g) != vcells[v]:
                ctx.fail('sharing_vertex', f'vertex {v} dof {g}: cells {sorted(owners.get(g, []))} expected {sorted(vcells[v])}', **sig)
                return
    if d == 3 and ne:
        for k, e in ekey.items():
            for g in edf[:, e].tolist():
                if owners.get(g) != set(T.edge_cells[k]):
                    ctx.fail('sharing_edge', f'edge {e} dof {g}', **sig)
                    return
    if d >= 2 and nf:
        for k, f in fkey.items():
            for g in fd[:, f].tolist():
                if owners.get(g) != set(T.facet_cells[k]):
                    ctx.fail('sharing_facet', f'facet {f} dof {g}', **sig)
                    return
    for c in range(nc):
        for g in idf[:, c].tolist():
            if owners.get(g) != {c}:
                ctx.fail('sharing_interior', f'cell {c} dof {g} owners {sorted(owners.get(g, []))}', **sig)
                return


def expected_counts(desc, sdim):
    """(nodal, edge, facet, interior) DOF counts of a descriptor: leaf counts are read from a fresh
    leaf instance, the wrappers' arithmetic is written here (documented behaviour of the wrappers)"""
    from ..cases import build_element
    c = desc['cls']
    if c == 'ElementVector':
        n = desc.get('dim', sdim)
        return tuple(n * x for x in expected_counts(desc['of'], sdim))
    if c == 'ElementDG':
        a = expected_counts(desc['of'], sdim)
        e = build_element(desc['of'])
        rd = e.refdom
        nedges = len(rd.edges) if (rd.edges and sdim == 3) else 0
        nfacets = len(rd.facets) if sdim >= 2 else 0
        tot = a[0] * rd.nnodes + a[1] * nedges + a[2] * nfacets + a[3]
        return (0, 0, 0, tot)
    if c == 'ElementComposite':
        parts = [expected_counts(d, sdim) for d in desc['of']]
        return tuple(sum(p[i] for p in parts) for i in range(4))
    e = build_element(desc)
    return (e.nodal_dofs, e.edge_dofs if sdim == 3 else 0, e.facet_dofs if sdim >= 2 else 0, e.interior_dofs)


def body_real(case, ctx):
    import skfem
    from skfem import BilinearForm, CellBasis, FacetBasis
    from ..cases import build_element, build_mesh
    from ..oracle import maps
    from ..oracle.topo import topo_of_mesh
    desc = case['mesh']
    m = build_mesh(desc)
    kind = gm.mesh_kind(desc)
    # the mesh as the user holds it when the basis is built: fresh, after operations whose results were discarded, or itself the
    # result of an adaptive refinement (a function of the case, no extra draw)
    post = ['none', 'none', 'discarded_ops', 'adaptive'][(len(case.get('subset') or []) + len(desc['t'][0])) % 4]
    if post == 'discarded_ops' and desc['cls'].endswith('1') and 'curved' not in desc['feat']:
        _ = m.facets, m.t2f
        if kind in ('tri', 'tet'):
            m.oriented()
        if kind in ('line', 'tri', 'tet'):
            m.refined(np.array([0], dtype=np.int64))
        m.translated(tuple([1.0] * m.dim()))
    elif post == 'adaptive' and kind in ('line', 'tri', 'tet') and desc['cls'].endswith('1') and m.nelements <= 12 \
            and desc.get('sort_t') is not False:
        m = m.refined(np.array(sorted({0, m.nelements // 2}), dtype=np.int64))
    else:
        post = 'none'
    e = build_element(case['elem'])
    lab = ge.label(case['elem'])
    sig = dict(mesh=desc['cls'], elem=lab)
    ctx.cls(desc['cls'], 'elem:' + case['elem']['cls'], 'post:' + post)
    counts = (e.nodal_dofs, e.edge_dofs, e.facet_dofs, e.interior_dofs)
    kinds_with_dofs = sum(1 for x in (e.nodal_dofs, e.edge_dofs if m.dim() == 3 else 0, e.facet_dofs, e.interior_dofs) if x)
    ctx.nt(kinds_with_dofs >= 2 or case['elem']['cls'] in ('ElementVector', 'ElementDG', 'ElementComposite')
           or any(f.startswith('renum') or f == 'local-order' for f in desc['feat']))
    T = topo_of_mesh(m)
    want_counts = expected_counts(case['elem'], m.dim())
    have = (e.nodal_dofs, e.edge_dofs if m.dim() == 3 else 0, e.facet_dofs if m.dim() >= 2 else 0, e.interior_dofs)
    if have != want_counts:
        ctx.fail('wrapper_counts', f'element announces (nodal, edge, facet, interior) = {have}, expected {want_counts}', **sig)
        return
    basis = CellBasis(m, e, intorder=2)
    if hasattr(e, 'doflocs') and len(e.doflocs) != basis.element_dofs.shape[0]:
        ctx.fail('doflocs_rows', f'{len(e.doflocs)} local DOF locations for {basis.element_dofs.shape[0]} local DOFs', **sig)
        return
    if basis.N != basis.dofs.N:
        ctx.fail('basis_N', '', **sig)

    class D:
        pass
    dd = D()
    dd.element_dofs, dd.N = basis.element_dofs, basis.N
    dd.nodal_dofs, dd.edge_dofs, dd.facet_dofs, dd.interior_dofs = (basis.nodal_dofs, basis.edge_dofs,
                                                                   basis.facet_dofs, basis.interior_dofs)
    check_tables(ctx, m, dd, T, sig, counts)
    if ctx.failures:
        return
    # (4) DOF locations: every finite location lies on the entity its DOF is attached to, and the table is single-valued: it
    # equals the mapped local location for EVERY cell containing the DOF (straight cells; curved ones are C10's).  Probing showed
    # this to hold for every element whose functions are attached to fixed points, nodal or not (H(div)/H(curl) elements list
    # their facet points in the globally consistent direction), with one exception recorded as a known finding: ElementTriN3.
    if 'curved' not in desc['feat'] and hasattr(basis, 'doflocs'):
        loc = np.asarray(e.doflocs, dtype=float)
        info = ge.info(case['elem'])
        strict = True
        chain = []
        d0 = case['elem']
        while d0['cls'] in ('ElementVector', 'ElementDG'):
            chain.append(d0['cls'])
            d0 = d0['of']
        if info is not None and info.get('nodal') and 'ElementVector' not in chain and info['family'] != 'skeleton' and np.isfinite(loc).all():
            # nodal elements (also under the DG wrapper): row i of the location table is the node of local function i
            V = np.array([np.asarray(e.lbasis(loc.T, i)[0], dtype=float).reshape(-1) for i in range(len(loc))])
            if V.shape != (len(loc), len(loc)) or not np.allclose(V, np.eye(len(loc)), rtol=0, atol=1e-10):
                ctx.fail('doflocs_not_the_nodes', f'{lab}: local function i does not equal delta_ij at the listed locations '
                         f'(max deviation {np.abs(V - np.eye(len(loc))).max() if V.shape == (len(loc), len(loc)) else V.shape})', **sig)
                return
        ent = {}
        for v in range(m.nvertices):
            for g in basis.nodal_dofs[:, v].tolist():
                ent[g] = [v]
        if m.dim() == 3 and e.edge_dofs:
            for k in range(m.edges.shape[1]):
                for g in basis.edge_dofs[:, k].tolist():
                    ent[g] = m.edges[:, k].tolist()
        if m.dim() >= 2 and e.facet_dofs:
            for k in range(m.facets.shape[1]):
                for g in basis.facet_dofs[:, k].tolist():
                    ent[g] = sorted(set(m.facets[:, k].tolist()))
        done = False
        for c in range(m.nelements):
            P = m.p[:, m.t[:, c]]
            x = maps.F1(kind, P, loc.T)
            gd = basis.element_dofs[:, c]
            got = basis.doflocs[:, gd]
            fin = np.isfinite(loc).all(1)
            scale = np.abs(P).max() + 1.0
            h = np.abs(P - P.mean(1, keepdims=True)).max()
            if strict and not np.allclose(got[:, fin], x[:, fin], rtol=0, atol=1e-12 * scale):
                ctx.fail('doflocs_single_valued', f'cell {c}: the location table differs from the mapped local locations of this cell by '
                         f'{np.abs(got[:, fin] - x[:, fin]).max():.2e} (a DOF shared with another cell is located elsewhere from there)',
                         n3='ElementTriN3' in lab, **sig)
                break
            for i in np.nonzero(fin)[0]:
                g = int(gd[i])
                xi = got[:, i]
                if g in ent:
                    Q = m.p[:, ent[g]]
                    # distance of xi to the affine hull box of the entity's vertices, and for
                    # simplicial entities to the convex hull (least squares barycentric coordinates)
                    A = np.vstack([Q, np.ones((1, Q.shape[1]))])
                    lam, *_ = np.linalg.lstsq(A, np.append(xi, 1.0), rcond=None)
                    res = np.abs(A @ lam - np.append(xi, 1.0)).max()
                    inside = res <= 1e-9 * scale and (Q.shape[1] > m.dim() or lam.min() >= -1e-9)
                    if Q.shape[1] > m.dim():   # quadrilateral facet: bounding box test
                        inside = res <= 1e-9 * scale and np.all(xi >= Q.min(1) - 1e-9 * scale) and np.all(xi <= Q.max(1) + 1e-9 * scale)
                    if not inside:
                        ctx.fail('doflocs_on_entity', f'cell {c} local dof {i}: location {xi.tolist()} is not on its '
                                 f'entity with vertices {Q.T.tolist()}', **sig)
                        done = True
                        break
                else:
                    X = maps.invF1(kind, P, xi[:, None])
                    if not maps.inside_ref(kind, X, tol=1e-8)[0]:
                        ctx.fail('doflocs_in_cell', f'cell {c} local dof {i}: interior DOF located outside its cell', **sig)
                        done = True
                        break
            if done:
                break
    # (5) shape and locality of assembled matrices
    e2 = build_element(case['elem2']) if case['elem2'] else None
    ncomp = lambda dsc: len(dsc['of']) if dsc and dsc['cls'] == 'ElementComposite' else 1  # noqa
    nu = ncomp(case['elem'])

    def integrand(*a):
        u, v = a[:nu], a[nu:-1]
        return _flat(tuple(u)) * _flat(tuple(v)) + 1.0 * _flat(tuple(u))
    form = BilinearForm(integrand)
    sub = np.array(sorted(case['subset']), dtype=np.int64)

    def locality(ub, vb, cells, what):
        A = form.assemble(ub, vb)
        if A.shape != (vb.N, ub.N):
            ctx.fail('shape', f'{what}: {A.shape} vs ({vb.N},{ub.N})', **sig)
            return
        allowed = set()
        for c in cells:
            for i in vb.dofs.element_dofs[:, c].tolist():
                for j in ub.dofs.element_dofs[:, c].tolist():
                    allowed.add((i, j))
        A = A.tocoo()
        nz = set(zip(A.row[A.data != 0].tolist(), A.col[A.data != 0].tolist()))
        if not nz <= allowed:
            ctx.fail('locality', f'{what}: {len(nz - allowed)} entries outside integrated cells, e.g. {sorted(nz - allowed)[:3]}', **sig)
    ub = basis
    vb = CellBasis(m, e2, intorder=2) if e2 is not None else basis
    locality(ub, vb, range(m.nelements), 'cells')
    ubs = CellBasis(m, e, elements=sub, intorder=2)
    vbs = CellBasis(m, e2, elements=sub, intorder=2) if e2 is not None else ubs
    locality(ubs, vbs, sub.tolist(), 'subset')
    info = ge.info(case['elem'])
    facet_ok = kind != 'wedge' and not _needs_shared_points(case['elem']) and (e2 is None or not _needs_shared_points(case['elem2']))
    if facet_ok and kind != 'line':
        ubf = FacetBasis(m, e, intorder=2)
        vbf = FacetBasis(m, e2, intorder=2) if e2 is not None else ubf
        cells = sorted(set(m.f2t[0, m.boundary_facets()].tolist()))
        locality(ubf, vbf, cells, 'boundary')


def _needs_shared_points(desc):
    if desc is None:
        return False
    if desc['cls'] in ('ElementVector', 'ElementDG'):
        return _needs_shared_points(desc['of'])
    if desc['cls'] == 'ElementComposite':
        return any(_needs_shared_points(d) for d in desc['of'])
    return not ge.R[desc['cls']]['percell']


def body_synth(case, ctx):
    from skfem.assembly import Dofs
    from skfem.element import Element
    from ..cases import build_mesh
    from ..oracle.topo import topo_of_mesh
    desc = case['mesh']
    m = build_mesh(desc)
    k = case['counts']

    class Synth(Element):
        nodal_dofs = k['nodal']
        edge_dofs = k['edge']
        facet_dofs = k['facet']
        interior_dofs = k['interior']
        refdom = m.elem.refdom
        dim = m.dim()
        maxdeg = 1
        dofnames = []
    e = Synth()
    sig = dict(mesh=desc['cls'], elem='synthetic', nodal=k['nodal'] > 0, edge=k['edge'] > 0, facet=k['facet'] > 0,
               interior=k['interior'] > 0)
    ctx.cls(desc['cls'], f"kinds:{sum(1 for v in k.values() if v)}")
    ctx.nt(sum(1 for v in k.values() if v) >= 2)
    dofs = Dofs(m, e)
    T = topo_of_mesh(m)
    check_tables(ctx, m, dofs, T, sig, (k['nodal'], k['edge'], k['facet'], k['interior']))


# ------------------------------------------------------------------------------ numberings built by other constructors
def special_cases(tier):
    out = []
    import itertools
    for cls, dim in (('MeshLine1DG', 1), ('MeshQuad1DG', 2), ('MeshHex1DG', 3)):
        for r in range(1, dim + 1):
            for per in itertools.combinations(range(dim), r):
                for n in ((4,) if tier == 'quick' else (4, 5, 6)):      # >= 3 cells per glued direction: entities are vertex SETS
                    out.append(dict(kind='periodic', cls=cls, periodic=list(per), n=n))
    for mk in ('line', 'tri', 'quad', 'tet', 'hex'):
        for nb in (2, 3, 4):
            out.append(dict(kind='composite_basis', mesh=mk, nbases=nb))
    return out


def body_special(c, ctx):
    """(a) periodic tensor meshes (Mesh*1DG.init_tensor(..., periodic=[...])): opposite sides glued in one, two or three directions;
    (b) CompositeBasis of two, three or four separate bases.  Numbers 0..N-1 all used, N as counted on the glued grid / as the
    sum of the parts, blocks placed one after the other, no structurally empty row in a mass-type matrix."""
    import skfem
    from skfem import BilinearForm, CellBasis
    ctx.nt(True)
    ctx.cls('special:' + c['kind'])
    sig = dict(kind=c['kind'])
    if c['kind'] == 'periodic':
        from skfem import mesh as skm
        n, per = c['n'], c['periodic']
        dim = {'MeshLine1DG': 1, 'MeshQuad1DG': 2, 'MeshHex1DG': 3}[c['cls']]
        x = np.linspace(0.0, 1.0, n)
        m = getattr(skm, c['cls']).init_tensor(*([x] * dim), periodic=per)
        E1, E2 = {1: ('ElementLineP1', 'ElementLineP2'), 2: ('ElementQuad1', 'ElementQuad2'), 3: ('ElementHex1', 'ElementHex2')}[dim]
        for name, pts in ((E1, n), (E2, 2 * (n - 1) + 1)):
            b = CellBasis(m, getattr(skfem, name)())
            want = int(np.prod([pts - 1 if d_ in per else pts for d_ in range(dim)]))       # nodes of the glued tensor grid
            used = np.unique(b.element_dofs)
            if b.N != want or len(used) != b.N or used[0] != 0 or used[-1] != b.N - 1:
                ctx.fail('periodic_numbering', f'{c["cls"]} n={n} periodic={per} {name}: N={b.N}, {len(used)} numbers in use, '
                         f'{want} nodes on the glued grid', **sig)
                return
            M = BilinearForm(lambda u, v, w: u * v).assemble(b)
            if (np.diff(M.indptr) == 0).any() or abs(M.sum() - 1.0) > 1e-12:
                ctx.fail('periodic_matrix', f'{name}: {int((np.diff(M.indptr) == 0).sum())} empty rows, entries sum to {M.sum()}', **sig)
                return
        return
    from skfem.assembly.basis.composite_basis import CompositeBasis
    mk = c['mesh']
    m = {'line': skfem.MeshLine, 'tri': skfem.MeshTri, 'quad': skfem.MeshQuad, 'tet': skfem.MeshTet, 'hex': skfem.MeshHex}[mk]().refined(1)
    names = {'line': ['ElementLineP1', 'ElementLineP2', 'ElementLineP0', 'ElementLineP1'],
             'tri': ['ElementTriP1', 'ElementTriP2', 'ElementTriP0', 'ElementTriCR'],
             'quad': ['ElementQuad1', 'ElementQuad2', 'ElementQuad0', 'ElementQuad1'],
             'tet': ['ElementTetP1', 'ElementTetP2', 'ElementTetP0', 'ElementTetCR'],
             'hex': ['ElementHex1', 'ElementHex2', 'ElementHex0', 'ElementHex1']}[mk][:c['nbases']]
    bases = [CellBasis(m, getattr(skfem, nm)(), intorder=2) for nm in names]
    cb = bases[0] * bases[1] if c['nbases'] == 2 else CompositeBasis(*bases)
    off = np.concatenate([[0], np.cumsum([b.N for b in bases])])
    ed = np.asarray(cb.element_dofs)
    used = np.unique(ed)
    if cb.N != off[-1] or len(used) != cb.N or used[0] != 0 or used[-1] != cb.N - 1:
        ctx.fail('composite_basis_numbering', f'{names}: N={cb.N} (sum of parts {off[-1]}), {len(used)} numbers in use', **sig)
        return
    r0 = 0
    for k, b in enumerate(bases):
        blk = ed[r0:r0 + b.element_dofs.shape[0]]
        if not np.array_equal(blk, b.element_dofs + off[k]):
            ctx.fail('composite_basis_blocks', f'{names}: rows of component {k} are not its own numbering shifted by {off[k]}', **sig)
            return
        r0 += b.element_dofs.shape[0]


PROP = Prop(
    'C04', 'DOF numbering gap-free, shared exactly along shared entities; locality of matrices',
    rule=('meshes of all classes (any numbering, holes, curved) x every registered element incl. Vector/DG/Composite '
          'wrappers, plus synthetic count-only elements with 0..3 nodal/edge/facet/interior DOFs; DOF->cells relation '
          'from element_dofs is compared with entity->cells recomputed from the cell list (both directions = iff); '
          'per-entity tables partition 0..N-1 and reproduce each column; doflocs == independently mapped local '
          'locations for every containing cell; assembled matrices (cells, subset, boundary; trial != test) have shape '
          '(N_test, N_trial) and no entry outside integrated cells. Non-trivial: >= 2 entity kinds carry DOFs, or '
          'wrapper element, or renumbered mesh'),
    assumptions=['synthetic elements respect the convention all real elements follow: no facet DOFs in 1-D, no edge DOFs in 2-D',
                 'doflocs are compared on straight-sided cells only (curved cells: the quadratic map is judged in C10)',
                 'facet bases are skipped for prisms and for ElementTriN3 (documented unsupported combinations)'],
    subs=[Sub('real', body_real, strategy=real_case, quick=1500, thorough=12000),
          Sub('synthetic', body_synth, strategy=synth_case, quick=600, thorough=15000),
          Sub('special', body_special, cases=special_cases, max_shards=8)],
    design_ref='DESIGN.md section 6, C04')
