"""C02 -- integration is exact for polynomial data on cells and facets."""
import itertools
import math
from fractions import Fraction as Fr

import numpy as np
from hypothesis import strategies as st

from ..core import Prop, Reject, Sub, Unsupported
from ..gen import meshes as gm
from ..gen import tags as gt
from ..oracle import polyq

P1 = {'line': 'ElementLineP1', 'tri': 'ElementTriP1', 'quad': 'ElementQuad1', 'tet': 'ElementTetP1', 'hex': 'ElementHex1',
      'wedge': 'ElementWedge1'}


def corners_of(kind):
    from skfem import refdom as rd
    R = {'quad': rd.RefQuad, 'hex': rd.RefHex, 'wedge': rd.RefWedge}[kind]
    return [tuple(int(round(v)) for v in R.p[:, k]) for k in range(R.p.shape[1])]


def exact_cell_integral(kind, P, f):
    V = [[Fr(float(x)) for x in row] for row in P]
    if kind in ('line', 'tri', 'tet'):
        return polyq.int_poly_simplex(f, V)
    if kind in ('quad', 'hex'):
        v, dj = polyq.int_poly_multilinear(f, V, corners_of(kind))
        return v
    v, dj = polyq.int_poly_wedge(f, V, corners_of('wedge'))
    return v


def needed_order(kind, deg, facet=False, d=None):
    """integration order for which the pulled-back integrand (incl. the Jacobian factor) is within the rule's
    advertised exactness"""
    if not facet:
        if kind in ('line', 'tri', 'tet'):
            return deg
        if kind == 'quad':
            return deg + 1
        if kind == 'hex':
            return deg + 2
        return deg              # wedge: the generated prisms are affine images of the reference prism (extruded, never jiggled)
    if kind in ('tri', 'quad', 'tet', 'line'):
        return deg
    return deg + 1              # planar quadrilateral faces of hexahedra


# ------------------------------------------------------------------------------ functionals
@st.composite
def case_functional(draw, tier):
    big = tier == 'thorough'
    desc = draw(gm.mesh(max_cells=12 if big else 8, max_cells_3d=6 if big else 3, order2=True, curved=False))
    kind = gm.mesh_kind(desc)
    d = gm.DIM[kind]
    maxdeg = (6 if big else 4) if d < 3 else (4 if kind == 'wedge' else (6 if big else 5))
    alpha = draw(st.lists(st.integers(0, maxdeg), min_size=d, max_size=d).filter(lambda a: sum(a) <= maxdeg))
    nc = len(desc['t'][0])
    return dict(mesh=desc, alpha=alpha, where=draw(st.sampled_from(['cells', 'cellsub', 'subdomain', 'bnd', 'facetsub', 'interior'])),
                picks=draw(st.lists(st.integers(0, 10**4), min_size=1, max_size=8)), extra=draw(st.integers(0, 2)),
                meta=draw(st.sampled_from(['none', 'none', 'renumber', 'rigid', 'refine'])))


@st.composite
def case_named(draw, tier):
    """integrals over NAMED cells/facets before and after uniform refinement (the name must keep meaning the same point set)"""
    big = tier == 'thorough'
    desc = draw(gm.mesh(max_cells=8 if big else 6, max_cells_3d=3, order2=True, curved=False,
                        kinds=('line', 'tri', 'tri', 'quad', 'quad', 'tet', 'hex')))
    kind = gm.mesh_kind(desc)
    d = gm.DIM[kind]
    maxdeg = 3 if d < 3 else 2
    alpha = draw(st.lists(st.integers(0, maxdeg), min_size=d, max_size=d).filter(lambda a: sum(a) <= maxdeg))
    wh = ['subdomain'] if (d == 3 or not desc['cls'].endswith('1')) else ['subdomain', 'facetsub', 'facetsub', 'interior', 'interior']
    return dict(mesh=desc, alpha=alpha, where=draw(st.sampled_from(wh)),
                picks=draw(st.lists(st.integers(0, 10**4), min_size=1, max_size=8)), extra=draw(st.integers(0, 2)), meta='refine')


def planar_faces(m):
    for f in range(m.nfacets):
        P = m.p[:, m.facets[:, f]]
        if P.shape[1] == 4:
            e = P[:, 1:] - P[:, :1]
            if abs(np.linalg.det(e)) > 1e-13 * np.abs(e).max() ** 3:
                return False
    return True


def body_functional(c, ctx):
    import skfem
    from skfem import CellBasis, FacetBasis, Functional
    from ..cases import build_element, build_mesh
    desc = c['mesh']
    kind = gm.mesh_kind(desc)
    m = build_mesh(desc)
    d = m.dim()
    alpha = tuple(c['alpha'])
    deg = sum(alpha)
    where = c['where']
    if kind == 'wedge' and where in ('bnd', 'facetsub', 'interior'):
        raise Unsupported('prisms have no facet bases')
    if kind == 'hex' and where in ('bnd', 'facetsub', 'interior') and not planar_faces(m):
        raise Unsupported('non-planar quadrilateral faces: the surface factor is not polynomial')
    if d == 1 and where in ('interior',) and m.nelements < 2:
        raise Reject()
    f = polyq.Poly.monomial(alpha)
    e = getattr(skfem, P1[kind])()
    sig = dict(mesh=desc['cls'], where=where)
    mirrored = 'mirrored' in desc['feat']
    nonaffine = kind in ('quad', 'hex', 'wedge') and ('split' in desc['feat'] or 'jiggled' in desc['feat'])
    ctx.cls(desc['cls'], where, f'deg={deg}', 'meta:' + c['meta'])
    ctx.nt(deg >= 2 and (mirrored or where != 'cells' or nonaffine))

    def integrand(w):
        out = 1.0
        for k in range(d):
            if alpha[k]:
                out = out * w.x[k] ** alpha[k]
        return out + 0 * w.x[0]
    nl = m.elem.refdom.nnodes
    if where in ('cells', 'cellsub', 'subdomain'):
        order = needed_order(kind, deg) + c['extra']
        if kind == 'tet':
            order = min(order, 8)
        if where == 'cells':
            cells = np.arange(m.nelements)
            basis = CellBasis(m, e, intorder=order)
        else:
            cells = np.array(list(dict.fromkeys(int(k) % m.nelements for k in c['picks'])), dtype=np.int32)    # any order
            if where == 'cellsub' and c['extra'] == 2:
                # the subset basis derived from a subset basis with another element
                basis = CellBasis(m, m.elem(), intorder=order, elements=cells).with_element(e)
            elif where == 'cellsub':
                basis = CellBasis(m, e, intorder=order, elements=cells)
            elif c['extra'] == 1 and len(cells) >= 2:
                # the region given as a union of two named, OVERLAPPING pieces (tuple / list / set of names)
                cells = np.unique(cells)
                h2 = len(cells) // 2
                mm = m.with_subdomains({'omega': cells, 'a': cells[:h2 + 1], 'b': cells[h2:][::-1].copy()})
                spell = [('a', 'b'), ['b', 'a'], {'a', 'b'}][len(c['picks']) % 3]
                basis = CellBasis(mm, e, intorder=order, elements=spell)
                ctx.cls('union-of-overlapping-names')
            else:
                mm = m.with_subdomains({'omega': cells})
                basis = CellBasis(mm, e, intorder=order, elements='omega')
        per = [exact_cell_integral(kind, m.p[:, m.t[:nl, k]], f) for k in cells]
        # orientation: x^alpha integrated with |det|: unsigned measure
        want = float(sum(per))
        # magnitude of what is summed: |integral| per cell, plus measure x sup|x^alpha| (exact integrals can vanish by symmetry)
        from ..oracle import geom as _g
        sup = float(np.prod([np.abs(m.p[k]).max() ** alpha[k] for k in range(d)]))
        scale = float(sum(abs(x) for x in per)) + _g.cell_measures(m)[cells].sum() * sup + 1e-300
        got = float(Functional(integrand).assemble(basis))
        ctx.close('functional_cells', got, want, 2e-11, scale, **sig)
        el = np.asarray(Functional(integrand).elemental(basis))
        if el.shape != (len(cells),):
            ctx.fail('elemental_shape', f'{el.shape} vs {(len(cells),)}', **sig)
        else:
            wantel = np.array([float(x) for x in per])
            ctx.close('elemental_cells', el, wantel, 2e-11, np.abs(wantel) + scale / len(cells), **sig)
        # further subsets of the same size on the SAME mesh object (a library user integrates over one
        # subdomain after the other): results must not depend on what was integrated before
        if where in ('cellsub', 'subdomain') and len(cells) < m.nelements:
            for shift in (1, 2):
                cells2 = ((cells.astype(np.int64) + shift) % m.nelements).astype(np.int32)
                b2 = CellBasis(m, getattr(skfem, P1[kind])(), intorder=order, elements=cells2)
                per2 = [exact_cell_integral(kind, m.p[:, m.t[:nl, k]], f) for k in cells2]
                el2 = np.asarray(Functional(integrand).elemental(b2))
                w2 = np.array([float(x) for x in per2])
                if el2.shape != w2.shape or not np.all(np.abs(el2 - w2) <= 2e-11 * (np.abs(w2) + scale / len(cells))):
                    ctx.fail('sequence_of_subsets', f'subset {cells2.tolist()} integrated after {cells.tolist()} on the same mesh '
                             f'object: {el2} vs {w2}', **sig)
                    break
    else:
        order = needed_order(kind, deg, facet=True) + c['extra']
        bf = m.boundary_facets()
        inner = np.setdiff1d(np.arange(m.nfacets), bf)
        if where == 'bnd':
            facets = bf
            basis = FacetBasis(m, e, intorder=order)
        elif where == 'facetsub':
            facets = np.array(list(dict.fromkeys(int(bf[int(k) % len(bf)]) for k in c['picks'])), dtype=np.int32)   # any order
            basis = FacetBasis(m, e, intorder=order, facets=facets)
        else:
            if len(inner) == 0:
                raise Reject()
            facets = np.array(list(dict.fromkeys(int(inner[int(k) % len(inner)]) for k in c['picks'])), dtype=np.int32)
            basis = skfem.InteriorFacetBasis(m, e, intorder=order, facets=facets, side=c['extra'] % 2)
        per = []
        for fc in facets:
            vs = m.facets[:, fc]
            P = [[Fr(float(x)) for x in row] for row in m.p[:, vs]]
            per.append(polyq.int_poly_facet(f, P))
        want = float(sum(per))
        sup = float(np.prod([np.abs(m.p[k]).max() ** alpha[k] for k in range(d)]))
        fmeas = sum(polyq.int_poly_facet(polyq.Poly.const(1, d), [[Fr(float(x)) for x in row] for row in m.p[:, m.facets[:, fc]]]) for fc in facets)
        scale = float(sum(abs(x) for x in per)) + fmeas * sup + 1e-300
        got = float(Functional(integrand).assemble(basis))
        ctx.close('functional_facets', got, want, 2e-11, scale, **sig)
        el = np.asarray(Functional(integrand).elemental(basis))
        if el.shape == (len(facets),):
            ctx.close('elemental_facets', el, np.array(per), 2e-11, np.abs(np.array(per)) + scale / len(facets), **sig)
        else:
            ctx.fail('elemental_shape', f'{el.shape}', **sig)
    # ---------------------------------------------------------------- metamorphic relations (whole mesh / boundary)
    meta = c['meta']
    if meta == 'refine' and where in ('subdomain', 'facetsub', 'interior') and kind != 'wedge':
        # a NAMED region keeps its meaning under uniform refinement (one call, one or two levels): the integral over the name
        # is the integral over the same point set.  Named facets survive refinement in 1-D/2-D only (3-D classes drop them).
        k = 1 + c['extra'] % 2
        if m.nelements * (2 ** d) ** k > 400 or (where != 'subdomain' and (d == 3 or not desc['cls'].endswith('1'))):
            return
        if where == 'subdomain' and kind in ('line', 'tri', 'tet') and desc['cls'].endswith('1') and len(c['picks']) % 2 == 0:
            # adaptive instead of uniform: the marked cells (and what the closure adds) are split, possibly twice
            marked = np.array(sorted({int(q) % m.nelements for q in c['picks'][:3]}), dtype=np.int64)
            import warnings
            with warnings.catch_warnings():
                warnings.simplefilter('ignore')
                m2 = mm.refined(marked)
                if c['extra'] == 2 and m2.nelements < 200:
                    m2 = m2.refined(np.arange(0, m2.nelements, 3, dtype=np.int64))
            b2 = CellBasis(m2, getattr(skfem, P1[kind])(), intorder=order, elements='omega')
            got2 = float(Functional(integrand).assemble(b2))
            ctx.cls('named_region_refined_adaptively')
            ctx.close('metamorphic_refine_named', got2, got, 5e-11, scale, levels=0, **sig)
            return
        import warnings
        with warnings.catch_warnings():
            warnings.simplefilter('ignore')
            if where == 'subdomain':
                m2 = mm.refined(k)
                b2 = CellBasis(m2, getattr(skfem, P1[kind])(), intorder=order, elements='omega')
            else:
                m2 = m.with_boundaries({'gam': facets}).refined(k)
                if where == 'facetsub':
                    b2 = FacetBasis(m2, getattr(skfem, P1[kind])(), intorder=order, facets='gam')
                else:
                    b2 = skfem.InteriorFacetBasis(m2, getattr(skfem, P1[kind])(), intorder=order, facets='gam', side=c['extra'] % 2)
        got2 = float(Functional(integrand).assemble(b2))
        ctx.cls('named_region_refined')
        ctx.close('metamorphic_refine_named', got2, got, 5e-11, scale, levels=k, **sig)
        return
    if meta == 'none' or where not in ('cells', 'bnd') or desc['cls'].endswith('2'):
        return
    cls = type(m)
    kw = {'sort_t': False} if desc.get('sort_t') is False else {}
    if meta == 'renumber':
        nv = m.p.shape[1]
        perm = np.random.RandomState(len(c['picks'])).permutation(nv)
        p2 = np.empty_like(m.p)
        p2[:, perm] = m.p
        m2 = cls(p2, perm[m.t][:, ::-1], **kw)
        integrand2 = integrand
    elif meta == 'rigid':
        # exactly representable motion: rotate by 90 degrees in the (0, last) plane and translate by dyadic numbers
        # the translation scales with the mesh (power of two): |offset| / cell size stays bounded, see DESIGN 12(a)
        sc = 2.0 ** np.floor(np.log2(max(np.ptp(m.p, axis=1).max(), 1e-300)))
        if d == 1:
            m2 = cls(m.p + 0.75 * sc, m.t, **kw)

            def integrand2(w):
                return (w.x[0] - 0.75 * sc) ** alpha[0] + 0 * w.x[0]
        else:
            R = np.eye(d)
            R[0, 0], R[0, d - 1], R[d - 1, 0], R[d - 1, d - 1] = 0.0, -1.0, 1.0, 0.0
            b = np.array([0.5, -1.25, 2.0][:d]) * sc
            m2 = cls(R @ m.p + b[:, None], m.t, **kw)

            def integrand2(w):
                y = [w.x[k] - b[k] for k in range(d)]
                xo = [sum(R[j, k] * y[j] for j in range(d)) for k in range(d)]      # R^T y
                out = 1.0
                for k in range(d):
                    if alpha[k]:
                        out = out * xo[k] ** alpha[k]
                return out + 0 * w.x[0]
    else:
        if kind == 'wedge' or m.nelements > 6:
            return
        m2 = m.refined()
        integrand2 = integrand
    if where == 'cells':
        b2 = CellBasis(m2, getattr(skfem, P1[kind])(), intorder=order)
    else:
        b2 = FacetBasis(m2, getattr(skfem, P1[kind])(), intorder=order)
    got2 = float(Functional(integrand2).assemble(b2))
    ctx.close('metamorphic_' + meta, got2, got, 5e-11, scale, **sig)


# ------------------------------------------------------------------------------ Lagrange matrices
LAGRANGE = {
    'line': [('ElementLineP0', 0), ('ElementLineP1', 1), ('ElementLineP2', 2)],
    'tri': [('ElementTriP0', 0), ('ElementTriP1', 1), ('ElementTriP2', 2), ('ElementTriP3', 3), ('ElementTriP4', 4)],
    'tet': [('ElementTetP0', 0), ('ElementTetP1', 1), ('ElementTetP2', 2)],
    'quad': [('ElementQuad0', 0), ('ElementQuad1', 1), ('ElementQuad2', 2)],
    'hex': [('ElementHex0', 0), ('ElementHex1', 1), ('ElementHex2', 2)],
}


@st.composite
def case_matrices(draw, tier):
    big = tier == 'thorough'
    desc = draw(gm.mesh(kinds=('line', 'tri', 'tet', 'quad', 'hex'), max_cells=8, max_cells_3d=3, affine_cells_only=True,
                        allow_jiggle=True, order2=False))
    kind = gm.mesh_kind(desc)
    if kind in ('quad', 'hex') and 'jiggled' in desc['feat']:
        desc = dict(desc)
    name, k = draw(st.sampled_from(LAGRANGE[kind]))
    d = gm.DIM[kind]
    beta = draw(st.lists(st.integers(0, 2), min_size=d, max_size=d).filter(lambda a: sum(a) <= 2))
    return dict(mesh=desc, elem=name, deg=k, beta=beta, picks=draw(st.lists(st.integers(0, 10**4), min_size=1, max_size=6)),
                subset=draw(st.booleans()))


# ------------------------------------------------------------------------------ facet forms of polynomial data
FACET_LAGRANGE = {
    'line': [('ElementLineP1', 1), ('ElementLineP2', 2)],
    'tri': [('ElementTriP1', 1), ('ElementTriP2', 2), ('ElementTriP3', 3)],
    'tet': [('ElementTetP1', 1), ('ElementTetP2', 2)],
    'quad': [('ElementQuad1', 1), ('ElementQuad2', 2)],       # isoparametric: contain all polynomials of total degree <= k
    'hex': [('ElementHex1', 1), ('ElementHex2', 2)],
}


@st.composite
def case_facet_forms(draw, tier):
    desc = draw(gm.mesh(kinds=('line', 'tri', 'tri', 'quad', 'quad', 'quad', 'tet', 'hex'), max_cells=8, max_cells_3d=3, order2=False))
    kind = gm.mesh_kind(desc)
    d = gm.DIM[kind]
    name, k = draw(st.sampled_from(FACET_LAGRANGE[kind]))

    def poly():
        terms = draw(st.lists(st.tuples(st.lists(st.integers(0, k), min_size=d, max_size=d).filter(lambda a: sum(a) <= k),
                                        st.sampled_from([1, -1, 2, -3, 1])), min_size=1, max_size=3))
        return [[list(a), cf] for a, cf in terms]
    return dict(mesh=desc, elem=name, deg=k, p=poly(), q=poly(), where=draw(st.sampled_from(['bnd', 'facetsub', 'interior', 'interior'])),
                picks=draw(st.lists(st.integers(0, 10**4), min_size=1, max_size=8)), side=draw(st.integers(0, 1)),
                extra=draw(st.integers(0, 1)))


def body_facet_forms(c, ctx):
    """v^T M u and b^T v for facet forms, u and v nodal interpolants of polynomials p, q that the space contains:
    = exact integrals of p q (and of x^beta-type data) over the selected straight facets.  Unlike functionals of w.x, this
    involves the basis functions at the facet quadrature points, i.e. the pull-back of facet points into the cells."""
    import skfem
    from skfem import BilinearForm, CellBasis, FacetBasis, LinearForm
    from ..cases import build_mesh
    desc = c['mesh']
    kind = gm.mesh_kind(desc)
    m = build_mesh(desc)
    d = m.dim()
    k = c['deg']
    where = c['where']
    if kind == 'hex' and not planar_faces(m):
        raise Unsupported('non-planar quadrilateral faces: the surface factor is not polynomial')
    E = getattr(skfem, c['elem'])
    P = polyq.Poly()
    Q = polyq.Poly()
    for a, cf in c['p']:
        P = P + polyq.Poly.monomial(tuple(a)) * Fr(cf)
    for a, cf in c['q']:
        Q = Q + polyq.Poly.monomial(tuple(a)) * Fr(cf)
    order = needed_order(kind, 2 * k, facet=True) + c['extra']
    bf = m.boundary_facets()
    inner = np.setdiff1d(np.arange(m.nfacets), bf)
    if where == 'bnd':
        facets = bf
        fb = FacetBasis(m, E(), intorder=order)
    elif where == 'facetsub':
        facets = np.array(list(dict.fromkeys(int(bf[int(q) % len(bf)]) for q in c['picks'])), dtype=np.int32)
        fb = FacetBasis(m, E(), intorder=order, facets=facets)
    else:
        if len(inner) == 0:
            raise Reject()
        facets = np.array(list(dict.fromkeys(int(inner[int(q) % len(inner)]) for q in c['picks'])), dtype=np.int32)
        fb = skfem.InteriorFacetBasis(m, E(), intorder=order, facets=facets, side=c['side'])
    nonaffine = kind in ('quad', 'hex') and ('split' in desc['feat'] or 'jiggled' in desc['feat'])
    ctx.cls(desc['cls'], c['elem'], where, 'nonaffine' if nonaffine else 'affine')
    ctx.nt(nonaffine or k >= 2 or where == 'interior')
    sig = dict(elem=c['elem'], mesh=desc['cls'], where=where)
    X = CellBasis(m, E(), intorder=1).doflocs
    u = np.asarray(P.evalf(X), dtype=float) + 0 * X[0]
    v = np.asarray(Q.evalf(X), dtype=float) + 0 * X[0]
    M = BilinearForm(lambda u_, v_, w: u_ * v_).assemble(fb)
    b = LinearForm(lambda v_, w: P.evalf(w.x) * v_ + 0 * w.x[0]).assemble(fb)
    PQ, absPQ = P * Q, polyq.Poly()
    for a, cf in PQ.items():
        absPQ = absPQ + polyq.Poly.monomial(a) * abs(cf)
    want = 0.0
    scale = 1e-300
    sup = [float(np.abs(m.p[q_]).max()) for q_ in range(d)]
    for fc in facets:
        Pf = [[Fr(float(x)) for x in row] for row in m.p[:, m.facets[:, fc]]]
        want += polyq.int_poly_facet(PQ, Pf)
        meas = polyq.int_poly_facet(polyq.Poly.const(1, d), Pf)
        scale += meas * sum(abs(float(cf)) * np.prod([sup[q_] ** a[q_] for q_ in range(d)]) for a, cf in PQ.items())
    ctx.close('facet_mass_polynomials', float(v @ (M @ u)), want, 1e-10, scale, **sig)
    ctx.close('facet_load_polynomials', float(b @ v), want, 1e-10, scale, **sig)


def monos(kind, k):
    d = gm.DIM[kind]
    if kind in ('line', 'tri', 'tet'):
        return [e for e in itertools.product(range(k + 1), repeat=d) if sum(e) <= k]
    return list(itertools.product(range(k + 1), repeat=d))


def ref_integral(kind, e):
    """integral of the monomial X^e over the reference cell (float, from exact factorials)"""
    if kind in ('line', 'tri', 'tet'):
        num = 1
        for a in e:
            num *= math.factorial(a)
        return num / math.factorial(sum(e) + len(e))
    v = 1.0
    for a in e:
        v /= (a + 1)
    return v


def body_matrices(c, ctx):
    import skfem
    from skfem import BilinearForm, CellBasis, LinearForm
    from skfem.helpers import dot, grad
    from ..cases import build_mesh
    desc = c['mesh']
    kind = gm.mesh_kind(desc)
    m = build_mesh(desc)
    d = m.dim()
    k = c['deg']
    E = getattr(skfem, c['elem'])
    e = E()
    beta = tuple(c['beta'])
    sig = dict(elem=c['elem'], mesh=desc['cls'])
    ctx.cls(desc['cls'], c['elem'], 'subset' if c['subset'] else 'whole')
    ctx.nt(k >= 2 or 'mirrored' in desc['feat'] or c['subset'])
    # order: mass 2k, load k + |beta| (in x; on tensor cells per direction the same numbers suffice for affine cells)
    order = max(2 * k, k + sum(beta), 1)
    if kind == 'tet':
        order = min(order, 8)
    cells = np.arange(m.nelements)
    default_order = (len(c['picks']) % 3 == 0) and kind != 'tet'
    if c['subset']:
        cells = np.array(list(dict.fromkeys(int(q) % m.nelements for q in c['picks'])), dtype=np.int32)     # any order
        basis = CellBasis(m, e, intorder=order, elements=cells)
    elif default_order and 2 * e.maxdeg >= order:
        basis = CellBasis(m, e)           # the default integration order must be sufficient for the element's own mass matrix
        ctx.cls('default-intorder')
    else:
        basis = CellBasis(m, e, intorder=order)
    M = BilinearForm(lambda u, v, w: u * v).assemble(basis).toarray()
    K = BilinearForm(lambda u, v, w: dot(grad(u), grad(v))).assemble(basis).toarray()

    def load(v, w):
        out = 1.0
        for q in range(d):
            if beta[q]:
                out = out * w.x[q] ** beta[q]
        return out * v
    b = LinearForm(load).assemble(basis)
    # ---- independent reference: monomial coefficients of the nodal basis by Vandermonde inversion
    ex = monos(kind, k)
    loc = np.asarray(e.doflocs, dtype=float)
    V = np.array([[np.prod([pt[q] ** mm[q] for q in range(d)]) for mm in ex] for pt in loc])      # (nodes, monos)
    if V.shape[0] != V.shape[1]:
        raise Unsupported(f'{c["elem"]}: {V.shape}')
    C = np.linalg.inv(V)                  # phi_i = sum_m C[m, i] X^m
    nm = len(ex)
    I0 = np.array([[ref_integral(kind, tuple(a + bb for a, bb in zip(ex[p], ex[q]))) for q in range(nm)] for p in range(nm)])
    Mref = C.T @ I0 @ C                   # int phi_i phi_j over the reference cell

    def dmono(mm, q):
        if mm[q] == 0:
            return None, 0.0
        return tuple(a - (i == q) for i, a in enumerate(mm)), float(mm[q])
    # int d_a phi_i d_b phi_j over the reference cell
    D = np.zeros((d, d, nm, nm))
    for a in range(d):
        for bq in range(d):
            for p in range(nm):
                mp, cp = dmono(ex[p], a)
                if mp is None:
                    continue
                for q in range(nm):
                    mq, cq = dmono(ex[q], bq)
                    if mq is None:
                        continue
                    D[a, bq, p, q] = cp * cq * ref_integral(kind, tuple(x + y for x, y in zip(mp, mq)))
    from ..oracle import maps
    N = basis.N
    Mw, Kw, bw = np.zeros((N, N)), np.zeros((N, N)), np.zeros(N)
    ed = basis.element_dofs
    nl = m.elem.refdom.nnodes
    for j, cell in enumerate(cells):
        P = m.p[:, m.t[:nl, cell]]
        J = maps.DF1(kind, P, np.full((d, 1), 0.25))[:, :, 0]        # constant on affine cells
        det = abs(np.linalg.det(J))
        G = np.linalg.inv(J)                                          # dX_a/dx_i = G[a, i]
        gd = ed[:, j] if ed.shape[1] == len(cells) else ed[:, cell]
        Mw[np.ix_(gd, gd)] += det * Mref
        Kl = np.zeros((nm, nm))
        GG = G @ G.T
        for a in range(d):
            for bq in range(d):
                Kl += GG[a, bq] * D[a, bq]
        Kw[np.ix_(gd, gd)] += det * (C.T @ Kl @ C)
        # load: x^beta in reference coordinates: x = P0 + J X  (affine) -> polynomial in X (exact rationals)
        x0 = maps.F1(kind, P, np.zeros((d, 1)))[:, 0]
        xs = []
        for i in range(d):
            pz = polyq.Poly.const(Fr(float(x0[i])), d)
            for a in range(d):
                pz = pz + polyq.Poly.var(a, d) * Fr(float(J[i, a]))
            xs.append(pz)
        fx = polyq.Poly.monomial(beta).compose(xs, d)
        lm = np.zeros(nm)
        for p in range(nm):
            tot = 0.0
            for eexp, coef in fx.items():
                tot += float(coef) * ref_integral(kind, tuple(x + y for x, y in zip(ex[p], eexp)))
            lm[p] = tot
        bw[gd] += det * (C.T @ lm)
    sM = np.abs(Mw).max() + 1e-300
    ctx.close('lagrange_mass', M, Mw, 1e-10, sM, **sig)
    if k >= 1:
        ctx.close('lagrange_stiffness', K, Kw, 1e-9, np.abs(Kw).max() + 1e-300, **sig)
    from ..oracle import geom as _g
    load_scale = np.abs(bw).max() + _g.cell_measures(m)[cells].sum() * (1.0 + np.abs(m.p).max()) ** sum(beta)
    ctx.close('lagrange_load', b, bw, 1e-10, load_scale, **sig)
    # partition of unity: entries of the mass matrix sum to the measure of the integration domain
    from ..oracle import geom
    vol = geom.cell_measures(m)[cells].sum()
    ctx.close('partition_of_unity', M.sum(), vol, 1e-11, vol, **sig)


# ------------------------------------------------------------------------------ partition of unity, all pou elements
@st.composite
def case_pou(draw, tier):
    from ..gen import elements as ge
    desc = draw(gm.mesh(max_cells=8, max_cells_3d=3, order2=False))
    kind = gm.mesh_kind(desc)
    name = draw(st.sampled_from(ge.names(kind, pred=lambda e: e['pou'])))
    return dict(mesh=desc, elem=name, where=draw(st.sampled_from(['cells', 'cellsub', 'bnd', 'facetsub'])),
                picks=draw(st.lists(st.integers(0, 10**4), min_size=1, max_size=6)))


def body_pou(c, ctx):
    import skfem
    from skfem import BilinearForm, CellBasis, FacetBasis, LinearForm
    from ..cases import build_mesh
    from ..oracle import geom
    desc = c['mesh']
    kind = gm.mesh_kind(desc)
    m = build_mesh(desc)
    e = getattr(skfem, c['elem'])()
    where = c['where']
    if where in ('bnd', 'facetsub') and (kind == 'wedge' or e.refdom.dim() == 1 and False):
        raise Unsupported('prisms have no facet bases')
    sig = dict(elem=c['elem'], where=where)
    ctx.cls(desc['cls'], c['elem'], where)
    ctx.nt(where != 'cells' or 'mirrored' in desc['feat'])
    order = min(2 * e.maxdeg + (2 if kind in ('quad', 'hex', 'wedge') else 0), 8 if kind == 'tet' else 12)
    order = max(order, 1)
    if where in ('cells', 'cellsub'):
        cells = np.arange(m.nelements) if where == 'cells' else np.array(list(dict.fromkeys(int(q) % m.nelements for q in c['picks'])), dtype=np.int32)
        basis = CellBasis(m, e, intorder=order) if where == 'cells' else CellBasis(m, e, intorder=order, elements=cells)
        meas = geom.cell_measures(m)[cells].sum()
    else:
        if kind == 'hex' and not planar_faces(m):
            raise Unsupported('non-planar faces')
        bf = m.boundary_facets()
        facets = bf if where == 'bnd' else np.array(list(dict.fromkeys(int(bf[int(q) % len(bf)]) for q in c['picks'])), dtype=np.int32)
        basis = FacetBasis(m, e, intorder=order) if where == 'bnd' else FacetBasis(m, e, intorder=order, facets=facets)
        T = geom.topo(m)
        meas = sum(geom.facet_measure_pts(m.p[:, _cyc(m, f)]) for f in facets)
    M = BilinearForm(lambda u, v, w: u * v).assemble(basis)
    one = LinearForm(lambda v, w: 1.0 * v).assemble(basis)
    ctx.close('mass_sums_to_measure', float(M.sum()), meas, 1e-10, meas, **sig)
    ctx.close('mass_row_sums', np.asarray(M.sum(1)).ravel(), one, 1e-10, np.abs(one).max() + 1e-300, **sig)


def _cyc(m, f):
    return m.facets[:, f]


PROP = Prop(
    'C02', 'integration is exact for polynomial data on cells and facets',
    rule=('(a) generated straight-sided meshes of all classes with exact dyadic/rational coordinates (general convex quads/hexes, '
          'prisms, mirrored, renumbered) x monomial x^alpha x integration domain (all cells, cell subset, tagged subdomain, '
          'boundary, boundary-facet subset, interior-facet subset) at the integration order that makes the pulled-back '
          'integrand exactly integrable: Functional and its elemental values == exact rational integrals (Fractions, one sqrt '
          'for facet measures) at 2e-11; metamorphic: renumbering, rigid motion, refinement leave the integral unchanged; '
          '(b) mass, stiffness and polynomial-load entries of Lagrange elements of degree 0-4 on affine cells == entries built '
          'independently from a monomial-basis Vandermonde inversion and exact reference integrals, on whole meshes and cell '
          'subsets; (c) every partition-of-unity element: sum of mass entries == measure, row sums == load of 1, on cells and '
          'facets. Non-trivial: degree >= 2 with a mirrored cell, subset/facet domain or non-affine cell (a); degree >= 2, '
          'mirrored or subset (b); non-default domain or mirrored (c)'),
    assumptions=['straight-sided cells; hexahedral facet integrals only on planar faces',
                 'integration order = degree of the pulled-back integrand incl. Jacobian (premise of the property, by construction)',
                 'tetrahedral orders capped at 8 (largest tabulated exactness)'],
    subs=[Sub('functional', body_functional, strategy=case_functional, quick=2400, thorough=30000),
          Sub('named_refined', body_functional, strategy=case_named, quick=500, thorough=6000),
          Sub('matrices', body_matrices, strategy=case_matrices, quick=800, thorough=10000),
          Sub('facet_forms', body_facet_forms, strategy=case_facet_forms, quick=600, thorough=8000),
          Sub('pou', body_pou, strategy=case_pou, quick=800, thorough=10000)],
    design_ref='DESIGN.md section 6, C02')
PROP.rule += ('. Added in round 2 (sub-check named_refined): integrals over NAMED cell / boundary-facet / interior-facet sets before and after refined(k), k in {1, 2} -- the name must keep meaning the same point set; non-trivial there as for functionals.')
