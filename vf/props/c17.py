"""C17 -- saving and loading a mesh round-trips geometry, connectivity and tags."""
import hashlib
import os
import tempfile

import numpy as np
from hypothesis import strategies as st

from ..core import Prop, Sub
from ..gen import meshes as gm
from ..gen import tags as gt

FILE_FORMATS = {'msh22': ('.msh', dict(file_format='gmsh22')),
                'msh41': ('.msh', {}),
                'vtk': ('.vtk', {}),
                'vtu': ('.vtu', {})}
ALL = ['meshio', 'msh22', 'msh41', 'vtk', 'vtu', 'json', 'dict', 'npz']


@st.composite
def case(draw, tier):
    fmt = draw(st.sampled_from(ALL))
    first_only = fmt in ('json', 'dict')
    kinds = ('tri', 'quad', 'tet', 'hex') + (('line',) if fmt in ('json', 'dict', 'npz') else ())
    desc = draw(gm.mesh(kinds=kinds, max_cells=16, max_cells_3d=8, order2=not first_only, curved=True))
    nc = len(desc['t'][0])
    tg = draw(gt.tags(nc, oriented=True, maxnames=3, names=draw(st.booleans()), empty_boundaries=True, repeats=True))
    return dict(mesh=desc, tags=tg, fmt=fmt, pdata=draw(st.booleans()), cdata=draw(st.booleans()),
                encode_pd=draw(st.integers(0, 3)) == 0, spare=draw(st.integers(0, 4)) == 0,
                seed=draw(st.integers(0, 10**6)))


def h(*arrs):
    m = hashlib.sha256()
    for a in arrs:
        a = np.ascontiguousarray(a)
        m.update(str(a.dtype).encode() + str(a.shape).encode() + a.tobytes())
    return m.hexdigest()


def mesh_hash(m):
    parts = [m.p, m.t]
    for d in (m.boundaries or {}, m.subdomains or {}):
        for k in sorted(d):
            v = d[k]
            parts.append(np.asarray(v))
            if hasattr(v, 'ori'):
                parts.append(np.asarray(v.ori))
    return h(*parts)


def ori_map(v):
    """facet -> sorted tuple of the orientation flags it is listed with (a facet may be listed from both sides)"""
    idx = np.asarray(v).astype(np.int64)
    ori = np.asarray(v.ori).astype(np.int64) if hasattr(v, 'ori') else np.zeros(len(idx), dtype=np.int64)
    out = {}
    for f, o in zip(idx.tolist(), ori.tolist()):
        out.setdefault(int(f), []).append(int(o))
    return {f: tuple(sorted(set(o))) for f, o in out.items()}       # a facet named twice from the same side is named once


def body(c, ctx):
    import skfem
    from skfem.io.meshio import from_meshio, to_meshio
    from ..cases import build_mesh, resolve_tags
    desc = c['mesh']
    fmt = c['fmt']
    m0 = build_mesh(desc)
    if c.get('spare') and desc['cls'].endswith('1'):
        # trailing points that no cell uses (the parts of `a @ b` share one point array; files with spare nodes): they are data too
        m0 = type(m0)(np.hstack([m0.p, m0.p[:, :2] + 16.0]), m0.t, **({'sort_t': False} if desc.get('sort_t') is False else {}))
        ctx.cls('spare-trailing-points')
    m, res = resolve_tags(m0, c['tags'])
    route = 'npz' if fmt == 'npz' else ('dict' if fmt in ('dict', 'json') else 'meshio')
    sig = dict(route=route, _fmt=fmt, _mesh=desc['cls'])
    oriented = any(o is not None and np.any(o) for _, o in res['boundaries'].values())
    interior = any(len(f) and np.any(m.f2t[1, f] != -1) for f, _ in res['boundaries'].values())
    multi = False
    for f, _ in res['boundaries'].values():
        if len(f):
            owners = m.f2t[0, f]
            multi = multi or len(set(owners.tolist())) < len(owners)
    ctx.cls(fmt, desc['cls'], 'oriented' if oriented else 'unoriented', 'interior' if interior else 'bnd-only')
    ctx.nt(oriented or interior or multi or desc['cls'].endswith('2') or 'Hex' in desc['cls'])
    rng = np.random.RandomState(c['seed'])
    pd = {'upoint': rng.randint(-8, 9, m.p.shape[1]).astype(float) / 4} if c['pdata'] else None
    cd = {'ucell': [rng.randint(-8, 9, m.nelements).astype(float) / 4]} if c['cdata'] else None
    pd0 = {k: v.copy() for k, v in pd.items()} if pd else None
    cd0 = {k: [a.copy() for a in v] for k, v in cd.items()} if cd else None
    before = mesh_hash(m)
    out = ['point_data', 'cell_data']
    cls = type(m)
    with tempfile.TemporaryDirectory(prefix='vf-c17-') as td:
        # optional keyword: the tags additionally encoded in point data (first-order meshes)
        ekw = dict(encode_point_data=True) if c.get('encode_pd') and desc['cls'].endswith('1') and not c.get('spare') else {}   # (with spare points the encoder raises: loud)
        if ekw:
            ctx.cls('encode_point_data')
        if fmt == 'meshio':
            mio = to_meshio(m, point_data=pd, cell_data=cd, **ekw)
            m2 = from_meshio(mio, out=out)
        elif fmt in FILE_FORMATS:
            suffix, kw = FILE_FORMATS[fmt]
            kw = dict(kw, **ekw)
            fn = os.path.join(td, 'mesh' + suffix)
            m.save(fn, point_data=pd, cell_data=cd, **kw)
            m2 = skfem.Mesh.load(fn, out=out)
            # the same path written again with another mesh and read again: what is on disk now
            mb = m.translated(tuple([0.5] * m.dim()))
            mb.save(fn, **kw)
            m3 = skfem.Mesh.load(fn)
            if m3.p.shape != mb.p.shape or not np.array_equal(m3.p, mb.p):
                ctx.fail('stale_file_content', f'{fmt}: a file overwritten with another mesh loads as the mesh written first', **sig)
        elif fmt == 'json':
            from skfem.io.json import from_file, to_file
            fn = os.path.join(td, 'mesh.json')
            to_file(m, fn)
            m2 = from_file(fn)
            out = None
        elif fmt == 'dict':
            m2 = cls.from_dict(m.to_dict())
            out = None
        elif fmt == 'npz':
            fn = os.path.join(td, 'mesh.npz')
            m.save_npz(fn)
            m2 = cls.load_npz(fn)
            out = None
    if mesh_hash(m) != before:
        ctx.fail('export_modified_mesh', '', **sig)
    if pd is not None and any(not np.array_equal(pd[k], pd0[k]) for k in pd0):
        ctx.fail('export_modified_user_point_data', '', **sig)
    if cd is not None and any(not np.array_equal(cd[k][0], cd0[k][0]) for k in cd0):
        ctx.fail('export_modified_user_cell_data', '', **sig)
    if type(m2) is not cls:
        ctx.fail('mesh_class', f'{type(m2).__name__} vs {cls.__name__}', **sig)
        return
    if m2.p.shape != m.p.shape or not np.array_equal(m2.p, m.p):
        err = np.abs(m2.p - m.p).max() if m2.p.shape == m.p.shape else 'shape'
        ctx.fail('coordinates', f'max diff {err}', **sig)
    if m2.t.shape != m.t.shape or not np.array_equal(m2.t, m.t):
        ctx.fail('connectivity', '', **sig)
        return
    # ---------------------------------------------------------------- tags
    sub0 = res['subdomains']
    sub2 = m2.subdomains or {}
    if set(sub2) != set(sub0):
        ctx.fail('subdomain_names', f'{sorted(sub2, key=str)} vs {sorted(sub0, key=str)}', **sig)
    else:
        for k in sub0:
            if set(np.asarray(sub2[k]).tolist()) != set(sub0[k].tolist()):
                ctx.fail('subdomain_cells', k, **sig)
                break
    b0 = m.boundaries or {}
    b2 = m2.boundaries or {}
    if set(b2) != set(b0):
        ctx.fail('boundary_names', f'{sorted(b2, key=str)} vs {sorted(b0, key=str)}', **sig)
    else:
        for k in b0:
            a, b = ori_map(b0[k]), ori_map(b2[k])
            if set(a) != set(b):
                ctx.fail('boundary_facets', f'{k}: {len(set(a) - set(b))} missing, {len(set(b) - set(a))} extra', **sig)
                break
            if a != b:
                bad = [f for f in a if a[f] != b[f]]
                ctx.fail('boundary_orientation', f'{k}: {len(bad)} of {len(a)} flags differ', **sig)
                break
    # ---------------------------------------------------------------- a second export of what came back
    if fmt == 'meshio' and out is not None and not ctx.failures and m2.subdomains and len(m2.subdomains) >= 1:
        # the loaded user data (it also holds the encoded fields of the FIRST export) handed back with the mesh whose named sets
        # were redefined meanwhile: the file carries the current sets
        name = sorted(m2.subdomains)[0]
        other = np.setdiff1d(np.arange(m2.nelements), np.asarray(m2.subdomains[name]))[: max(1, m2.nelements // 2)].astype(np.int32)
        m3 = m2.with_subdomains({name: other})
        try:
            m4 = from_meshio(to_meshio(m3, cell_data=dict(out[1])))
            if set(np.asarray((m4.subdomains or {}).get(name, [])).tolist()) != set(other.tolist()):
                ctx.fail('stale_tags_from_user_data', f'subdomain {name} redefined before the second export comes back as it was', **sig)
        except ValueError:
            pass            # meshio refuses cell data of another layout: loud
    if fmt == 'meshio' and not ctx.failures and m.boundaries and len(m.boundaries) >= 2:
        # the tag dictionary of one mesh object edited in place between two exports
        import dataclasses
        me = dataclasses.replace(m, _boundaries=dict(m.boundaries))
        from_meshio(to_meshio(me))
        gone = sorted(me.boundaries)[0]
        del me.boundaries[gone]
        m5 = from_meshio(to_meshio(me))
        if set(m5.boundaries or {}) != set(me.boundaries):
            ctx.fail('stale_tags_second_export', f'{gone} deleted between two exports of the same mesh object is still in the second', **sig)
    # ---------------------------------------------------------------- user data
    if out is not None:
        pdl, cdl = out
        if pd is not None:
            if 'upoint' not in pdl or not np.array_equal(np.asarray(pdl['upoint']), pd0['upoint']):
                ctx.fail('user_point_data', '', **sig)
        if cd is not None:
            got = cdl.get('ucell') if hasattr(cdl, 'get') else None
            if got is None or not np.array_equal(np.asarray(got[0]), cd0['ucell'][0]):
                ctx.fail('user_cell_data', '', **sig)


PROP = Prop(
    'C17', 'save/load round trip of geometry, connectivity and tags',
    rule=('generated first- and second-order (also curved) tri/quad/tet/hex meshes (line for dict/json/npz) with arbitrary '
          'numbering x up to three subdomains and three boundaries (boundary/interior/mixed facet pools, optional '
          'orientation flags) x user point/cell data x format in {in-memory meshio, gmsh 2.2, gmsh 4.1, vtk, '
          'vtu, json, dict, npz}; the loaded mesh must have the same class, bit-identical p and t, equal tag names, equal '
          'tagged entity sets, equal facet->orientation maps; user data equal; operand checksums unchanged. Non-trivial: '
          'orientation flag 1, interior facet, a cell owning >= 2 tagged facets, second-order or hexahedral node reordering'),
    assumptions=['tags contain no duplicate indices and are compared as sets (maps for orientations)',
                 'an all-zero orientation is equivalent to an unoriented boundary',
                 'orientation 1 only on interior facets (documented as illegal otherwise)',
                 'dict/json only for first-order classes, as the property says',
                 'absent tags may come back as None or as an empty dictionary (the property speaks of names and entity sets)',
                 'gmsh 2.2 is written in binary: meshio 5.3 cannot re-read its own ASCII ElementData under numpy 2 (third-party defect)'],
    subs=[Sub('roundtrip', body, strategy=case, quick=700, thorough=12000)],
    design_ref='DESIGN.md section 6, C17')
PROP.rule += ('. Added in round 2: named boundaries with an empty selection (the name must survive).')
