"""C07 -- DOF lookup returns exactly the DOFs that control the selected entities."""
import numpy as np
from hypothesis import strategies as st

from ..core import Prop, Reject, Sub, Unsupported
from ..gen import elements as ge
from ..gen import meshes as gm

FACET_SPELL = ['array', 'int64', 'list_of_ints', 'predicate', 'name', 'set_of_names', 'tuple_mixed', 'single_int',
               'tag_predicate', 'tag_predicate_all']
CELL_SPELL = ['array', 'predicate', 'name', 'list_mixed']
NODE_SPELL = ['array', 'predicate', 'tuple_coords', 'list_mixed']


@st.composite
def case(draw, tier):
    big = tier == 'thorough'
    desc = draw(gm.mesh(max_cells=16 if big else 8, max_cells_3d=8 if big else 4, order2=True, curved=False))
    kind = gm.mesh_kind(desc)
    # 3-D elements with edge DOFs are where the closure matters most
    el = draw(ge.wrapped(kind, composite=True, maxcomp=2))
    if draw(st.integers(0, 2)) > 0:
        # prefer elements whose DOFs live on several entity kinds: only there can a closure be wrong
        from ..cases import build_element
        for _ in range(3):
            e0 = build_element(el)
            if sum(1 for x in (e0.nodal_dofs, e0.facet_dofs, e0.edge_dofs, e0.interior_dofs) if x) >= 2:
                break
            el = draw(ge.wrapped(kind, composite=True, maxcomp=2))
    what = draw(st.sampled_from(['facets', 'facets', 'facets', 'cells', 'nodes', 'default']))
    spell = draw(st.sampled_from({'facets': FACET_SPELL, 'cells': CELL_SPELL, 'nodes': NODE_SPELL, 'default': ['none']}[what]))
    return dict(mesh=desc, elem=el, what=what, spell=spell, pool=draw(st.sampled_from(['boundary', 'interior', 'all'])),
                picks=draw(st.lists(st.integers(0, 10**4), min_size=1, max_size=8)),
                filt=draw(st.sampled_from(['none', 'none', 'skip', 'keep', 'drop', 'all', 'skip+drop', 'keep+drop', 'drop+drop', 'keep+keep'])),
                fpick2=draw(st.integers(0, 100)),
                fpick=draw(st.integers(0, 100)), seed=draw(st.integers(0, 10**6)))


def kind_names(desc, d):
    """independent map entity kind -> DOF names row by row.  Leaf elements, ElementVector and ElementDG: the
    element's own name list read in the documented order nodal, facet, edge, interior.  Composites: for every
    kind, the components' rows one component after the other, each name suffixed with ^<component number>
    (what a name of a composite means: the DOF of that name of that component)."""
    from ..cases import build_element
    if desc['cls'] == 'ElementComposite':
        out = {'nodal': [], 'facet': [], 'edge': [], 'interior': []}
        for i, comp in enumerate(desc['of']):
            kn = kind_names(comp, d)
            for k in out:
                out[k] += [f'{n}^{i + 1}' for n in kn[k]]
        return out
    e = build_element(desc)
    names = list(e.dofnames)
    nn, nf, ne, ni = e.nodal_dofs, (e.facet_dofs if d >= 2 else 0), (e.edge_dofs if d == 3 else 0), e.interior_dofs
    out = {}
    k = 0
    for kind, n in (('nodal', nn), ('facet', nf), ('edge', ne), ('interior', ni)):
        out[kind] = [names[k + r] if k + r < len(names) else None for r in range(n)]
        k += n
    return out


def rows_by_kind(desc, d):
    kn = kind_names(desc, d)
    return [(kind, r, nm) for kind in ('nodal', 'facet', 'edge', 'interior') for r, nm in enumerate(kn[kind])]


def leaves(desc):
    if desc['cls'] == 'ElementComposite':
        return [x for d in desc['of'] for x in leaves(d)]
    if desc['cls'] in ('ElementVector', 'ElementDG'):
        return leaves(desc['of'])
    return [desc]


def body(c, ctx):
    import skfem
    from skfem import CellBasis, FacetBasis
    from ..cases import build_element, build_mesh
    from ..gen.bases import facet_supported
    from ..oracle.topo import topo_of_mesh
    desc = c['mesh']
    kind = gm.mesh_kind(desc)
    m = build_mesh(desc)
    d = m.dim()
    # cells selected by a NAME that was given on a coarser mesh and carried through refined(k) by the library: the selection
    # the name must stand for is found geometrically (brute-force parent map)
    carried = None
    if c['what'] == 'cells' and c['spell'] == 'name' and c['fpick2'] % 4 != 3 and kind in ('tri', 'quad', 'tet', 'hex', 'line') \
            and 'curved' not in desc['feat']:
        lev = 2 if c['fpick2'] % 4 != 0 else 1
        cap = {1: 16, 2: 8, 3: 2}[d]
        if lev == 2 and m.nelements > cap and desc['cls'].endswith('1'):
            m = m.restrict(np.arange(cap, dtype=np.int32))          # a small piece of the generated mesh: two levels stay cheap
        if m.nelements * (2 ** d) ** lev <= 150:
            import dataclasses
            from ..oracle import geom
            Cc = np.array(list(dict.fromkeys(int(k) % m.nelements for k in c['picks'])), dtype=np.int32)
            tagged = m.with_subdomains({'sel': Cc}).refined(lev)
            parent = geom.parent_map(m, tagged)
            carried = (tagged, [int(k) for k in np.nonzero(np.isin(parent, Cc))[0]])
            m = dataclasses.replace(tagged, _subdomains=None, _boundaries=None)
            ctx.cls(f'name-carried-through-refined({lev})')
    eld = c['elem']
    e = build_element(eld)
    lab = ge.label(eld)
    sig = dict(sel=c['what'], spell=c['spell'])
    T = topo_of_mesh(m)
    nf = m.nfacets
    bf = np.array(sorted(f for f in range(nf) if frozenset(int(v) for v in m.facets[:, f]) in T.boundary_facets), dtype=np.int32)
    inner = np.setdiff1d(np.arange(nf), bf)
    pool = {'boundary': bf, 'interior': inner if len(inner) else bf, 'all': np.arange(nf)}[c['pool']]
    what = c['what']
    rows = rows_by_kind(eld, d)
    kinds_with = len({k for k, _, _ in rows})
    names = sorted({n for _, _, n in rows if n is not None})
    ctx.cls(desc['cls'], 'sel:' + what, 'spell:' + c['spell'], 'filt:' + c['filt'], f'kinds={kinds_with}')
    basis = CellBasis(m, e, intorder=1)
    nd, fd, edf, idf = basis.nodal_dofs, basis.facet_dofs, basis.edge_dofs, basis.interior_dofs
    fkey = {frozenset(int(v) for v in m.facets[:, f]): f for f in range(nf)}
    ekey = {frozenset(int(v) for v in m.edges[:, k]): k for k in range(m.edges.shape[1])} if (d == 3 and e.edge_dofs) else {}

    def table(sel_vertices, sel_edges, sel_facets, sel_cells, allowed=None):
        out = set()
        for kind_, r, nm in rows:
            if allowed is not None and nm not in allowed:
                continue
            if kind_ == 'nodal':
                out |= {int(nd[r, v]) for v in sel_vertices}
            elif kind_ == 'facet':
                out |= {int(fd[r, f]) for f in sel_facets}
            elif kind_ == 'edge':
                out |= {int(edf[r, k]) for k in sel_edges}
            else:
                out |= {int(idf[r, k]) for k in sel_cells}
        return out

    def closure_of_facets(F):
        vs = set()
        es = set()
        for f in F:
            key = frozenset(int(v) for v in m.facets[:, f])
            vs |= set(key)
            if ekey:
                es |= {ekey[k] for k in T.facet_edges(key)}
        return vs, es

    # ------------------------------------------------------------------ the selection in the requested spelling
    rng = np.random.RandomState(c['seed'])
    mm = m
    if what == 'facets':
        F = list(dict.fromkeys(int(pool[int(k) % len(pool)]) for k in c['picks']))
        if c['spell'] == 'single_int':
            F = F[:1]
        if c['spell'] in ('tag_predicate', 'tag_predicate_all'):
            # a tag defined by a region predicate on facet midpoints: by default only facets on the boundary of
            # the domain are tagged (documented boundaries_only=True); with boundaries_only=False all of them
            midp = m.p[:, m.facets].mean(axis=1)
            x0 = float(np.median(midp[0]))
            allf = [int(f) for f in range(nf) if midp[0, f] <= x0]
            F = [f for f in allf if f in set(bf.tolist())] if c['spell'] == 'tag_predicate' else allf
            if not F:
                raise Reject()
        Fa = np.array(F, dtype=np.int32)
        mid = m.p[:, m.facets].mean(axis=1)
        chosen = mid[:, Fa]
        if c['spell'] == 'array':
            arg = Fa
        elif c['spell'] == 'int64':
            arg = Fa.astype(np.int64)
        elif c['spell'] == 'list_of_ints':
            arg = [int(f) for f in F]
        elif c['spell'] == 'single_int':
            arg = int(F[0])
        elif c['spell'] == 'predicate':
            h = np.abs(m.p).max() + 1.0

            def arg(x, chosen=chosen, h=h):
                return np.array([np.any(np.all(np.abs(chosen - x[:, k:k + 1]) <= 1e-12 * h, axis=0)) for k in range(x.shape[1])])
        elif c['spell'] == 'tag_predicate':
            mm = m.with_boundaries({'sel': lambda x: x[0] <= x0})
            arg = 'sel'
        elif c['spell'] == 'tag_predicate_all':
            mm = m.with_boundaries({'sel': lambda x: x[0] <= x0}, boundaries_only=False)
            arg = 'sel'
        elif c['spell'] == 'name':
            mm = m.with_boundaries({'sel': Fa})
            arg = 'sel'
        elif c['spell'] == 'set_of_names':
            mm = m.with_boundaries({'a': Fa[::2], 'b': Fa[1::2]})
            arg = {'a', 'b'} if len(Fa) > 1 else {'a'}
        else:
            mm = m.with_boundaries({'b': Fa[1::2]})
            arg = (Fa[::2], 'b') if len(Fa) > 1 else (Fa,)
        if mm is not m:
            basis = CellBasis(mm, build_element(eld), intorder=1)
        call = lambda **kw: basis.get_dofs(arg, **kw)          # noqa
        vs, es = closure_of_facets(F)
        sel = dict(sel_vertices=vs, sel_edges=es, sel_facets=set(F), sel_cells=set())
        ctx.nt((c['pool'] != 'boundary' or len(F) < len(bf)) and kinds_with >= 2)
    elif what == 'cells':
        C = list(dict.fromkeys(int(k) % m.nelements for k in c['picks'])) if carried is None else carried[1]
        Ca = np.array(C, dtype=np.int32)
        cen = m.p[:, m.t].mean(axis=1)
        chosen = cen[:, Ca]
        if c['spell'] == 'array':
            arg = Ca
        elif c['spell'] == 'predicate':
            h = np.abs(m.p).max() + 1.0

            def arg(x, chosen=chosen, h=h):
                return np.array([np.any(np.all(np.abs(chosen - x[:, k:k + 1]) <= 1e-12 * h, axis=0)) for k in range(x.shape[1])])
        elif c['spell'] == 'name':
            mm = m.with_subdomains({'sel': Ca}) if carried is None else carried[0]
            arg = 'sel'
        else:
            mm = m.with_subdomains({'b': Ca[1::2]})
            arg = [Ca[::2], 'b'] if len(Ca) > 1 else [Ca]
        if mm is not m:
            basis = CellBasis(mm, build_element(eld), intorder=1)
        call = lambda **kw: basis.get_dofs(elements=arg, **kw)          # noqa
        vs = {v for k in C for v in T.cells[k]}
        es = {ekey[q] for k in C for q in T.cell_edges[k]} if ekey else set()
        fs = {fkey[q] for k in C for q in T.cell_facets[k]}
        sel = dict(sel_vertices=vs, sel_edges=es, sel_facets=fs, sel_cells=set(C))
        ctx.nt(len(C) < m.nelements and kinds_with >= 2)
    elif what == 'nodes':
        V = list(dict.fromkeys(int(k) % m.nvertices for k in c['picks']))
        if c['spell'] == 'tuple_coords':
            V = V[:1]
        Va = np.array(V, dtype=np.int32)
        chosen = m.p[:, Va]
        if c['spell'] == 'array':
            arg = Va
        elif c['spell'] == 'predicate':
            h = np.abs(m.p).max() + 1.0

            def arg(x, chosen=chosen, h=h):
                return np.array([np.any(np.all(np.abs(chosen - x[:, k:k + 1]) <= 1e-12 * h, axis=0)) for k in range(x.shape[1])])
        elif c['spell'] == 'tuple_coords':
            if np.abs(chosen[:, 0]).max() > 1e3:
                raise Reject()
            arg = tuple(float(x) for x in chosen[:, 0])
        else:
            arg = [Va[::2], Va[1::2]] if len(Va) > 1 else [Va]
        call = lambda **kw: basis.get_dofs(nodes=arg, **kw)          # noqa
        sel = dict(sel_vertices=set(V), sel_edges=set(), sel_facets=set(), sel_cells=set())
        ctx.nt(kinds_with >= 2)
    else:
        call = lambda **kw: basis.get_dofs(**kw)          # noqa
        F = bf.tolist()
        vs, es = closure_of_facets(F)
        sel = dict(sel_vertices=vs, sel_edges=es, sel_facets=set(F), sel_cells=set())
        ctx.nt(kinds_with >= 2)
    # ------------------------------------------------------------------ the query, filtered by name
    filt = c['filt']
    pickname = names[c['fpick'] % len(names)] if names else None
    allowed = None
    if filt == 'none' or pickname is None:
        got = call()
        gotset = got.flatten()
    elif filt == 'skip':
        got = call(skip=[pickname])
        gotset = got.flatten()
        allowed = set(names) - {pickname}
    elif filt == 'keep':
        got = call().keep([pickname])
        gotset = got.flatten()
        allowed = {pickname}
    elif filt == 'drop':
        got = call().drop([pickname])
        gotset = got.flatten()
        allowed = set(names) - {pickname}
    elif filt == 'all':
        got = call()
        gotset = got.all([pickname])
        allowed = {pickname}
    else:
        # chained filters: each one narrows what the previous one left
        second = names[c['fpick2'] % len(names)]
        first, then = filt.split('+')
        allowed = set(names)
        if first == 'skip':
            got = call(skip=[pickname])
            allowed -= {pickname}
        elif first == 'keep':
            got = call().keep([pickname])
            allowed &= {pickname}
        else:
            got = call().drop([pickname])
            allowed -= {pickname}
        if then == 'drop':
            got = got.drop([second])
            allowed -= {second}
        else:
            got = got.keep([second])
            allowed &= {second}
        gotset = got.flatten()
    want = table(allowed=allowed, **sel)
    gs = set(int(x) for x in np.asarray(gotset).tolist())
    if len(gs) != len(np.asarray(gotset)):
        ctx.fail('duplicates_in_result', '', **sig)
    if gs != want:
        ctx.fail('table_closure', f'{lab}: {len(want - gs)} controlling DOFs missing, {len(gs - want)} extra '
                 f'(filter {filt}:{pickname}; selection {what}/{c["spell"]})', filt=filt, **sig)
        return
    # the dictionary form {key: selection}: one query per key, the same filters applied to each
    if what == 'facets' and filt in ('none', 'skip') and pickname is not None:
        kw = dict(skip=[pickname]) if filt == 'skip' else {}
        import warnings
        with warnings.catch_warnings():
            warnings.simplefilter('ignore')
            # (deprecated form; documented for index arrays and predicates as values)
            dd = basis.get_dofs({'k1': np.array(sorted(sel['sel_facets'] and F), dtype=np.int32), 'k2': bf[:1]}, **kw)
        one = set(int(x) for x in np.asarray(basis.get_dofs(bf[:1], **kw).flatten()).tolist())
        if not isinstance(dd, dict) or set(dd) != {'k1', 'k2'}:
            ctx.fail('dict_form', f'keys {sorted(dd) if isinstance(dd, dict) else type(dd)}', **sig)
        elif set(int(x) for x in np.asarray(dd['k1'].flatten()).tolist()) != gs or \
                set(int(x) for x in np.asarray(dd['k2'].flatten()).tolist()) != one:
            ctx.fail('dict_form', f'{lab}: get_dofs({{key: selection}}, {kw}) differs from the single queries', filt=filt, **sig)
    # per-kind dictionaries agree with the flat result
    if filt != 'all':
        parts = set()
        for dct in (got.nodal, got.facet, got.edge, got.interior):
            for nm, arr in dct.items():
                if allowed is not None and nm not in allowed and len(arr):
                    ctx.fail('name_filter_dict', f'{nm} present after filter {filt}', **sig)
                parts |= set(int(x) for x in np.asarray(arr).tolist())
        if parts != gs:
            ctx.fail('dicts_vs_flatten', f'{len(parts ^ gs)} DOFs differ between .nodal/.facet/.edge/.interior and flatten()', **sig)
    # tags are values: deriving another mesh that redefines the same name must not change what the name means here
    if what in ('facets', 'cells') and c['spell'] in ('name', 'set_of_names', 'tuple_mixed', 'list_mixed', 'tag_predicate') and filt == 'none' \
            and mm is not m:
        if what == 'facets':
            mm.with_boundaries({'sel': mm.boundary_facets()[:1], 'a': mm.boundary_facets()[-1:], 'b': mm.boundary_facets()[:1]})
        else:
            mm.with_subdomains({'sel': np.array([0], dtype=np.int32), 'b': np.array([0], dtype=np.int32)})
        again = set(int(x) for x in np.asarray(call().flatten()).tolist())
        if again != gs:
            ctx.fail('tag_redefined_elsewhere', 'the result of a query by tag name changed after ANOTHER mesh was derived with the same '
                     'tag name', **sig)
    # complement and set algebra
    for kindb in ('facet', 'subset'):
        # the complement is taken in range(N) for every kind of basis
        if kind == 'wedge' and kindb == 'facet':
            continue
        try:
            ob = (FacetBasis(m, build_element(eld), intorder=1) if kindb == 'facet'
                  else CellBasis(m, build_element(eld), intorder=1, elements=np.array([0], dtype=np.int32)))
        except Exception:
            continue
        sub_ = np.asarray(gotset)[np.asarray(gotset) < ob.N]
        cc = ob.complement_dofs(sub_)
        if ob.N != basis.N or set(cc.tolist()) != set(range(ob.N)) - set(sub_.tolist()):
            ctx.fail('complement', f'{kindb} basis: complement_dofs is not the set complement in range(N)', **sig)
            break
    comp = basis.complement_dofs(np.asarray(gotset))
    if set(comp.tolist()) != set(range(basis.N)) - gs or len(comp) != basis.N - len(gs):
        ctx.fail('complement', '', **sig)
    if what == 'facets' and filt == 'none' and len(F) > 1 and c['spell'] in ('array', 'int64'):
        a = basis.get_dofs(Fa[::2])
        b = basis.get_dofs(Fa[1::2])
        u1 = set(np.asarray((a | b).flatten()).tolist())
        u2 = set(np.asarray((a + b).flatten()).tolist())
        if u1 != want or u2 != want:
            ctx.fail('union_algebra', '', **sig)
        cd = basis.complement_dofs({'a': a, 'b': b})
        if set(cd.tolist()) != set(range(basis.N)) - want:
            ctx.fail('complement_dict', '', **sig)
        if names:
            k2 = a.keep(names[:1]).keep(names[:1]).flatten()
            k1 = a.keep(names[:1]).flatten()
            if not np.array_equal(k1, k2):
                ctx.fail('keep_idempotent', '', **sig)
    # ------------------------------------------------------------------ semantic oracle: zero on the set => zero trace
    if what not in ('facets', 'default') or filt != 'none' or 'curved' in desc['feat']:
        return
    lv = leaves(eld)
    fams = [ge.R[x['cls']]['family'] for x in lv]
    if _has_dg(eld) or any(f in ('l2', 'noncon', 'skeleton', 'global-noncon') for f in fams):
        return
    if not facet_supported(kind, eld) or kind == 'line':
        return
    if any(x['cls'] in ('ElementQuadBFS', 'ElementHexC1', 'ElementQuad2G') for x in lv):
        from ..oracle import maps
        for k in range(m.nelements):          # conforming on axis-parallel boxes only
            P = m.p[:, m.t[:, k]]
            J = maps.DF1(kind, P, np.full((d, 1), 0.3))[:, :, 0]
            J2 = maps.DF1(kind, P, np.full((d, 1), 0.7))[:, :, 0]
            if np.abs(J - np.diag(np.diag(J))).max() > 1e-13 or np.abs(J - J2).max() > 1e-13:
                return
    if any(f.startswith('global') for f in fams):
        if kind in ('tri', 'tet') and min(gm.simplex_quality(m.p[:, m.t[:, k]]) for k in range(m.nelements)) < 0.05:
            return
    Fsel = np.array(sorted(sel['sel_facets']), dtype=np.int32)
    u = rng.randint(1, 5, basis.N).astype(float)
    u[list(want)] = 0.0
    from .c03 import project, trace_kinds, facet_geometry
    tk = trace_kinds(eld)
    for side in (0, 1):
        Fs = Fsel if side == 0 else Fsel[m.f2t[1, Fsel] != -1]
        if len(Fs) == 0:
            continue
        fb = FacetBasis(mm if what == 'facets' else m, build_element(eld), facets=Fs, intorder=3, side=side)
        ff = fb.interpolate(u)
        ff = ff if isinstance(ff, tuple) else (ff,)
        for comp, ((kc, isvec), fld) in enumerate(zip(tk, ff)):
            if kc is None or kc.startswith('functional'):
                continue
            val = np.asarray(fld.value)
            for j, f in enumerate(Fs):
                v = val[..., j, :]
                if kc == 'value' or (isvec and kc == 'value'):
                    tr = v
                else:
                    if kind == 'hex':
                        nn = np.asarray(fb.normals.value)[:, j, :]
                        if kc == 'normal':
                            tr = (nn * v).sum(0)
                        elif kc == 'tangential':
                            tr = np.cross(nn.T, v.T).T
                        else:
                            tr = np.einsum('ip,ijp,jp->p', nn, v, nn)
                    else:
                        n, tang = facet_geometry(m, f)
                        tr = project(kc, v, n, tang)
                mag = 1.0 + np.abs(v).max()
                if np.abs(tr).max() > 1e-8 * mag * (1e2 if any(x.startswith('global') for x in fams) else 1.0):
                    ctx.fail('trace_independence', f'{lab}: a function vanishing on the returned DOFs has a non-zero trace '
                             f'({np.abs(tr).max():.2e}) on selected facet {int(f)}, side {side}, component {comp}', **sig)
                    return


def _has_dg(d):
    if d['cls'] == 'ElementDG':
        return True
    if d['cls'] == 'ElementVector':
        return _has_dg(d['of'])
    if d['cls'] == 'ElementComposite':
        return any(_has_dg(x) for x in d['of'])
    return False


PROP = Prop(
    'C07', 'DOF lookup returns exactly the DOFs that control the selected entities',
    rule=('generated mesh x element (all families, wrappers, two-component composites) x selection of facets / cells / vertices '
          'from boundary, interior or all entities x spelling (index array int32/int64, list of ints, single int, predicate on '
          'midpoints, tag name, set of names, mixed tuple/list) x name filter (skip / keep / drop / all): the result must equal the '
          'DOFs the per-entity tables attach to the brute-force closure of the selection (vertices and 3-D edges of facets, '
          'everything on cells), restricted through an independent name->row map; .nodal/.facet/.edge/.interior agree with '
          'flatten(); complement and union algebra; the argument-free query equals the table closure of the brute-force boundary; '
          'semantic oracle: a coefficient vector vanishing on the returned set has zero trace (in the element\'s sense, both '
          'sides) on the selected facets. Non-trivial: proper subset / interior facets and an element with DOFs on >= 2 entity kinds'),
    assumptions=['DG-wrapped, L2, non-conforming and skeleton elements are excluded from the trace part (their DOFs are not attached to facets / do not control the full trace)',
                 'trace part on straight cells; ElementGlobal family under the quality floor',
                 'names are mapped to rows in the documented order nodal, facet, edge, interior'],
    subs=[Sub('lookup', body, strategy=case, quick=1500, thorough=25000)],
    design_ref='DESIGN.md section 6, C07')
PROP.rule += ('. Added in round 2: after a query by tag name another mesh is derived that redefines the same name (the query on the older mesh must not change); complement_dofs on FacetBasis and on CellBasis(elements=subset) must be the complement in range(N).')
