"""C06 -- Galerkin exactness end to end (patch test and projection identity)."""
from fractions import Fraction as Fr

import numpy as np
from hypothesis import strategies as st

from ..core import Prop, Reject, Sub, Unsupported
from ..gen import elements as ge
from ..gen import meshes as gm
from ..oracle import polyq

# H1-conforming elements whose space contains P_k (degree taken from the registry).  Crouzeix-Raviart elements are left
# out: the trace of a CR function on the boundary also depends on the interior-facet DOFs of the boundary cells, so the
# boundary L2 projection onto the boundary DOFs alone is not the interpolant (the procedure of the property does not apply)
PATCH = {
    'line': ['ElementLineP1', 'ElementLineP2', 'ElementLinePp', 'ElementLineMini'],
    'tri': ['ElementTriP1', 'ElementTriP2', 'ElementTriP3', 'ElementTriP4', 'ElementTriMini', 'ElementTriCCR', 'ElementTriP1B',
            'ElementTriP2B'],
    'quad': ['ElementQuad1', 'ElementQuad2', 'ElementQuadS2', 'ElementQuadP'],
    'tet': ['ElementTetP1', 'ElementTetP2', 'ElementTetMini', 'ElementTetCCR'],
    'hex': ['ElementHex1', 'ElementHex2', 'ElementHexS2'],
    'wedge': ['ElementWedge1'],
}
COEF = st.sampled_from([0, 0, 1, -1, 2, -3, Fr(1, 2), Fr(-1, 4), Fr(3, 2)])


@st.composite
def poly(draw, d, k):
    """random polynomial of total degree <= k with dyadic coefficients (at least one term of degree k)"""
    terms = {}
    for e in polyq.monomials_total(d, k):
        c = draw(COEF)
        if c != 0:
            terms[e] = Fr(c)
    top = [e for e in polyq.monomials_total(d, k) if sum(e) == k]
    e = top[draw(st.integers(0, len(top) - 1))]
    terms[e] = terms.get(e, Fr(0)) + 1
    if terms[e] == 0:
        terms[e] = Fr(1)
    return [[list(e), [c.numerator, c.denominator]] for e, c in terms.items()]


def to_poly(desc, d):
    return polyq.Poly({tuple(e): Fr(n, q) for e, (n, q) in desc})


@st.composite
def case_patch(draw, tier):
    big = tier == 'thorough'
    kind = draw(st.sampled_from(['line', 'tri', 'tri', 'quad', 'tet', 'hex', 'wedge']))
    name = draw(st.sampled_from(PATCH[kind]))
    d_el = {'cls': name}
    if name in ge.PP_RANGE:
        d_el['p'] = draw(st.integers(1, 5))
    k = ge.R[name]['deg'] if ge.R[name]['deg'] != 'p' else d_el['p']
    general = kind in ('quad', 'hex') and draw(st.integers(0, 2)) == 0
    if kind == 'wedge':
        desc = draw(gm.mesh(kinds=('wedge',), max_cells_3d=6, allow_jiggle=False))
    elif general:
        desc = draw(gm.mesh(kinds=(kind,), max_cells=12, max_cells_3d=4, bases=['split'], allow_jiggle=False))
        k = 1
    else:
        desc = draw(gm.mesh(kinds=(kind,), max_cells=14 if big else 10, max_cells_3d=5 if big else 3, affine_cells_only=True))
    d = gm.DIM[kind]
    problem = draw(st.sampled_from(['poisson', 'poisson', 'reaction', 'elasticity'])) if d >= 2 else draw(st.sampled_from(['poisson', 'reaction']))
    deg = (k if draw(st.booleans()) else draw(st.integers(1, k))) if k >= 1 else 0      # full-degree solutions half of the time
    ncomp = d if problem == 'elasticity' else 1
    return dict(mesh=desc, elem=d_el, k=k, problem=problem, polys=[draw(poly(d, deg)) for _ in range(ncomp)],
                dpicks=draw(st.lists(st.integers(0, 10**4), min_size=1, max_size=10)), allD=draw(st.integers(0, 3)) == 0,
                setup=draw(st.sampled_from(['arrays', 'arrays', 'named_parts', 'named_parts_union', 'named_then_refined'])),
                parts=draw(st.integers(0, 2)) == 0, served=draw(st.integers(0, 2)) == 0,
                lam=draw(st.sampled_from([1.0, 0.5, 2.0])), mu=draw(st.sampled_from([1.0, 0.25, 3.0])), c0=draw(st.sampled_from([1.0, 0.5, 4.0])))


def body_patch(c, ctx):
    import skfem
    from skfem import BilinearForm, CellBasis, FacetBasis, Functional, LinearForm, condense, solve
    from skfem.helpers import ddot, dot, grad, sym_grad
    from skfem.models.elasticity import linear_elasticity, linear_stress
    from skfem.models.poisson import laplace, mass
    from ..cases import build_element, build_mesh
    desc = c['mesh']
    kind = gm.mesh_kind(desc)
    m = build_mesh(desc)
    d = m.dim()
    problem = c['problem']
    if c.get('served'):
        # the mesh object has served before: its tables were looked at and copies were derived from it and thrown away
        _ = m.facets, m.t2f, m.f2t
        if kind in ('tri', 'tet') and desc['cls'].endswith('1'):
            m.oriented()
        if kind != 'wedge' and m.nelements <= 6:
            m.refined()
        m.translated(tuple([0.5] * d))
        ctx.cls('mesh_served_before')
    lab = ge.label(c['elem'])
    P = [to_poly(pd, d) for pd in c['polys']]
    e = build_element(c['elem'])
    if problem == 'elasticity':
        e = skfem.ElementVector(e)
    k = c['k']
    # the quadrature must integrate the element's own mass matrix (also on facets) whatever the degree of the solution
    io = min(2 * max(e.maxdeg if problem != 'elasticity' else e.elem.maxdeg, 1) + 2, 8 if kind == 'tet' else 14)
    elab = c['elem']['cls'] + (f"(p{'>=3' if c['elem']['p'] >= 3 else '<3'})" if 'p' in c['elem'] else '')
    sig = dict(problem=problem, elem=elab)
    if c['elem']['cls'] == 'ElementQuadP':
        sig['shifted_cells'] = 'local-order' in desc['feat'] or 'split' in desc['feat']
    bf = m.boundary_facets()
    if c['allD'] or kind == 'wedge':
        Dfac = bf
    else:
        Dfac = np.array(sorted({int(bf[int(q) % len(bf)]) for q in c['dpicks']}), dtype=np.int32)
    Nfac = np.setdiff1d(bf, Dfac)
    # how the user states the boundary parts: index arrays; names (the constrained part given to condense as a dictionary of
    # views, one per named piece -- pieces share DOFs where they meet); names given on the coarse mesh and carried through
    # refined()
    setup = c.get('setup', 'arrays')
    selD, selN, Ddict = Dfac, Nfac, None
    if setup in ('named_parts', 'named_parts_union') and kind != 'wedge':
        parts = {'d1': Dfac[::2]}
        if len(Dfac) > 1:
            parts['d2'] = Dfac[1::2]
        if len(Nfac):
            parts['neu'] = Nfac
            selN = 'neu'
        m = m.with_boundaries(parts)
        Ddict = [k_ for k_ in ('d1', 'd2') if k_ in parts]
    elif setup == 'named_then_refined' and kind in ('line', 'tri', 'quad') and desc['cls'].endswith('1') and m.nelements <= 10:
        parts = {'dir': Dfac}
        if len(Nfac):
            parts['neu'] = Nfac
        m = m.with_boundaries(parts).refined()
        bf = m.boundary_facets()
        selD, selN = 'dir', 'neu'
        Dfac = np.asarray(m.boundaries['dir'])
        Nfac = np.asarray(m.boundaries['neu']) if len(Nfac) else Nfac
    else:
        setup = 'arrays'
    basis = CellBasis(m, e, intorder=io)
    irregular = any(f in desc['feat'] for f in ('delaunay', 'jiggled', 'split', 'holes')) or any(f.startswith('renum') for f in desc['feat'])
    ctx.cls(desc['cls'], problem, lab, 'mixed-bc' if len(Nfac) else 'dirichlet-only', f'deg={max(p.degree() for p in P)}', 'setup:' + setup)
    ctx.nt((irregular and len(Nfac) > 0) or max(p.degree() for p in P) >= 2)

    def ev(p, x):
        return p.evalf(x)

    def gradp(p, x):
        return np.array([p.diff(a).evalf(x) if p.diff(a) else 0 * x[0] for a in range(d)])
    facet_ok = kind != 'wedge'
    # ------------------------------------------------------------------ assemble the model problem
    if problem in ('poisson', 'reaction'):
        p = P[0]
        lap = polyq.Poly()
        for a in range(d):
            pa = p.diff(a)
            if pa:
                paa = pa.diff(a)
                if paa:
                    lap = lap + paa
        c0 = c['c0'] if problem == 'reaction' else 0.0
        if c.get('parts') and m.nelements >= 2:
            # the domain assembled piece by piece (two cell sets of equal size where possible, as for two materials)
            h2 = m.nelements // 2
            pieces = [np.arange(0, h2, dtype=np.int32), np.arange(h2, 2 * h2, dtype=np.int32)[::-1].copy()]
            if 2 * h2 < m.nelements:
                pieces.append(np.array([m.nelements - 1], dtype=np.int32))
            pb = [CellBasis(m, build_element(c['elem']), intorder=io, elements=pc) for pc in pieces]
            K = sum(laplace.assemble(q_) for q_ in pb)
            if c0:
                K = K + c0 * sum(mass.assemble(q_) for q_ in pb)
            ctx.cls('assembled-by-parts')
        else:
            K = laplace.assemble(basis)
            if c0:
                K = K + c0 * mass.assemble(basis)
        f = LinearForm(lambda v, w: (-(lap.evalf(w.x) if lap else 0 * w.x[0]) + c0 * ev(p, w.x)) * v).assemble(basis)
        if len(Nfac):
            fbN = FacetBasis(m, build_element(c['elem']), facets=selN, intorder=io)
            f = f + LinearForm(lambda v, w: dot(gradp(p, w.x), w.n) * v).assemble(fbN)
        exact = lambda x: ev(p, x) + 0 * x[0]           # noqa
    else:
        lam, mu = c['lam'], c['mu']
        # stress of the polynomial displacement, symbolically
        G = [[P[i].diff(j) for j in range(d)] for i in range(d)]           # du_i/dx_j (Poly or empty)

        def padd(a, b):
            return (a if a else polyq.Poly()) + (b if b else polyq.Poly())
        tr = polyq.Poly()
        for i in range(d):
            tr = padd(tr, G[i][i])
        S = [[padd(padd(G[i][j], G[j][i]) * Fr(mu).limit_denominator(10**6), (tr * Fr(lam).limit_denominator(10**6)) if i == j else polyq.Poly())
              for j in range(d)] for i in range(d)]
        divS = []
        for i in range(d):
            s = polyq.Poly()
            for j in range(d):
                if S[i][j]:
                    dj = S[i][j].diff(j)
                    if dj:
                        s = s + dj
            divS.append(s)
        K = BilinearForm(linear_elasticity(lam, mu)).assemble(basis)

        def body_load(v, w):
            return sum(-(divS[i].evalf(w.x) if divS[i] else 0 * w.x[0]) * v.value[i] for i in range(d))
        f = LinearForm(body_load).assemble(basis)
        if len(Nfac):
            fbN = FacetBasis(m, skfem.ElementVector(build_element(c['elem'])), facets=selN, intorder=io)

            def traction(v, w):
                out = 0
                for i in range(d):
                    for j in range(d):
                        if S[i][j]:
                            out = out + S[i][j].evalf(w.x) * w.n[j] * v.value[i]
                return out
            f = f + LinearForm(traction).assemble(fbN)
        exact = lambda x: np.array([ev(P[i], x) + 0 * x[0] for i in range(d)])           # noqa
    # ------------------------------------------------------------------ essential data through the library's own projection
    if facet_ok:
        fbD = FacetBasis(m, (skfem.ElementVector(build_element(c['elem'])) if problem == 'elasticity' else build_element(c['elem'])),
                         facets=selD, intorder=io)
        uD = fbD.project(exact)
        if Ddict is None:
            D = basis.get_dofs(selD)
        elif setup == 'named_parts_union':
            import warnings
            with warnings.catch_warnings():
                warnings.simplefilter('ignore')
                D = basis.get_dofs(Ddict[0])
                for k_ in Ddict[1:]:
                    D = D | basis.get_dofs(k_)            # the union operator of the views
            Ddict = None
        else:
            D = {k_: basis.get_dofs(k_) for k_ in Ddict}
    else:
        # prisms: no facet bases; boundary values through the cell projection (the space contains the polynomial)
        uD = basis.project(exact)
        D = basis.get_dofs()
    Dflat = D.flatten() if Ddict is None else np.unique(np.concatenate([v_.flatten() for v_ in D.values()]))
    I = basis.complement_dofs(Dflat)
    if len(I):
        KII = K[I][:, I].toarray()
        if np.linalg.cond(KII) > 1e9:
            raise Reject()      # e.g. rigid body modes left free by a small Dirichlet part
    # the assembled system is used several times, as a user does when trying boundary splits: first with the whole boundary
    # constrained through enforce (which returns a modified copy), then for the generated mixed split through condense
    y0 = None
    if facet_ok and len(Nfac):
        from skfem import enforce
        fbA = FacetBasis(m, (skfem.ElementVector(build_element(c['elem'])) if problem == 'elasticity' else build_element(c['elem'])), intorder=io)
        uA = fbA.project(exact)
        y0 = solve(*enforce(K, f, x=uA, D=basis.get_dofs()))
    y = solve(*condense(K, f, x=uD, D=D))
    # ------------------------------------------------------------------ compare with the exact polynomial
    hb = CellBasis(m, basis.elem, intorder=io)
    uh = hb.interpolate(y)

    def err(w):
        ex = exact(w.x)
        dv = w['uh'].value - ex
        out = dv ** 2 if problem != 'elasticity' else sum(dv[i] ** 2 for i in range(d))
        gq = w['uh'].grad
        if problem == 'elasticity':
            for i in range(d):
                gp = gradp(P[i], w.x)
                out = out + sum((gq[i][a] - gp[a]) ** 2 for a in range(d))
        else:
            gp = gradp(P[0], w.x)
            out = out + sum((gq[a] - gp[a]) ** 2 for a in range(d))
        return out

    def nrm(w):
        ex = exact(w.x)
        return (ex ** 2 if problem != 'elasticity' else sum(ex[i] ** 2 for i in range(d))) + 1.0
    E = float(np.sqrt(abs(Functional(err).assemble(hb, uh=uh))))
    Nn = float(np.sqrt(Functional(nrm).assemble(hb)))
    hmin = min(np.ptp(m.p[:, m.t[:, q]], axis=1).max() for q in range(m.nelements))
    if not E <= 1e-8 * Nn / min(1.0, hmin):
        ctx.fail('patch_test', f'{problem} with {lab} on {desc["cls"]} ({len(Dfac)} Dirichlet / {len(Nfac)} Neumann facets): '
                 f'H1 error {E:.3e} against the polynomial solution (norm {Nn:.2e})', **sig)
        return
    # the same assembled system used again, as a user does when trying several boundary splits: enforce (which returns a
    # modified copy) for the same split, then condense with the whole boundary constrained
    from skfem import enforce
    ye = solve(*enforce(K, f, x=uD, D=D))
    if not np.allclose(ye, y, rtol=0, atol=1e-7 * (1 + np.abs(y).max()) / min(1.0, hmin)):
        ctx.fail('enforce_vs_condense', f'{lab}: enforce and condense give different solutions ({np.abs(ye - y).max():.3e})', **sig)
    if y0 is not None:
        E0 = float(np.sqrt(abs(Functional(err).assemble(hb, uh=hb.interpolate(y0)))))
        if not E0 <= 1e-8 * Nn / min(1.0, hmin):
            ctx.fail('patch_test_all_dirichlet', f'{lab}: H1 error {E0:.3e} with the whole boundary constrained through enforce', **sig)
    el = basis.elem
    if (facet_ok and problem != 'elasticity' and len(Nfac) == 0 and el.nodal_dofs == 1 and el.facet_dofs == 0 and el.edge_dofs == 0
            and el.interior_dofs == 0 and np.array_equal(basis.nodal_dofs[0], np.arange(m.nvertices))):
        # vertex-based spaces: the unknowns taken from the mesh (DOF number = vertex number), as many of the examples do
        ctx.cls('unknowns_from_mesh_nodes')
        ym = solve(*condense(K, f, x=uD, I=m.interior_nodes()))
        if not np.allclose(ym, y, rtol=0, atol=1e-7 * (1 + np.abs(y).max()) / min(1.0, hmin)):
            ctx.fail('unknowns_from_mesh_nodes', f'{lab}: condensing to I = mesh.interior_nodes() differs from condensing with D = all boundary '
                     f'DOFs by {np.abs(ym - y).max():.3e} (vertex 0 interior: {0 not in set(m.boundary_nodes().tolist())})', **sig)
    info = ge.R[c['elem']['cls']]
    if info['nodal'] and problem != 'elasticity' and hasattr(basis, 'doflocs'):
        vals = exact(basis.doflocs)
        if not np.allclose(y, vals, rtol=0, atol=1e-8 * (1 + np.abs(vals).max()) / min(1.0, hmin)):
            ctx.fail('patch_test_nodal', f'{lab}: nodal values differ from the polynomial by {np.abs(y - vals).max():.3e}', **sig)


# ------------------------------------------------------------------------------ projection identities
@st.composite
def case_project(draw, tier):
    desc = draw(gm.mesh(max_cells=10, max_cells_3d=4, order2=True, curved=True))
    kind = gm.mesh_kind(desc)
    k = draw(st.integers(0, 5))
    base = draw(ge.simple(kind, pred=lambda e: not e['family'].startswith('global') and e['family'] != 'skeleton', exclude=('ElementTriN3',)))
    el = {'cls': 'ElementVector', 'of': base} if (k == 5 and ge.R[base['cls']]['scalar']) else base
    return dict(mesh=desc, elem=el, where=draw(st.sampled_from(['whole', 'subset', 'subset_kw', 'facets', 'facets_kw'])),
                picks=draw(st.lists(st.integers(0, 10**4), min_size=1, max_size=6)), seed=draw(st.integers(0, 10**6)))


def body_project(c, ctx):
    from skfem import CellBasis, FacetBasis
    from ..cases import build_element, build_mesh
    from ..gen.bases import facet_supported
    desc = c['mesh']
    kind = gm.mesh_kind(desc)
    m = build_mesh(desc)
    eld = c['elem']
    lab = ge.label(eld)
    where = c['where']
    sig = dict(where=where)
    e = build_element(eld)
    io = min(2 * max(e.maxdeg, 1) + (2 if kind in ('quad', 'hex', 'wedge') or 'curved' in desc['feat'] else 0), 8 if kind == 'tet' else 14)
    rng = np.random.RandomState(c['seed'])
    vals = np.array([1.0, -1.0, 0.5, -2.0, 3.0, 0.25])
    ctx.cls(desc['cls'], where, 'curved' if 'curved' in desc['feat'] else 'straight')
    ctx.nt(where != 'whole' or 'curved' in desc['feat'])
    base_info = ge.info(eld)
    if where == 'whole':
        basis = CellBasis(m, e, intorder=io)
        z = vals[rng.randint(0, len(vals), basis.N)]
        y = basis.project(basis.interpolate(z))
        ctx.close('project_whole', y, z, 1e-8, 1.0 + np.abs(z).max(), **sig)
    elif where in ('subset', 'subset_kw'):
        cells = np.array(sorted({int(q) % m.nelements for q in c['picks']}), dtype=np.int32)
        whole = CellBasis(m, build_element(eld), intorder=io)
        dofs = whole.get_dofs(elements=cells).flatten()
        z = np.zeros(whole.N)
        z[dofs] = vals[rng.randint(0, len(vals), len(dofs))]
        if where == 'subset':
            basis = CellBasis(m, e, intorder=io, elements=cells)
            y = basis.project(basis.interpolate(z))
        else:
            # keyword variant on the whole basis: a projection onto the span of the selected DOFs in the inner product
            # of the whole basis -- it reproduces every function that vanishes on the other DOFs
            y = whole.project(whole.interpolate(z), elements=cells)
        ctx.close('project_subset', y, z, 1e-8, 1.0 + np.abs(z).max(), **sig)
    else:
        if not facet_supported(kind, eld) or kind == 'line':
            raise Unsupported('facet basis')
        if base_info is None or base_info['family'] not in ('h1',) or not base_info['nodal']:
            raise Unsupported('trace projection is an identity only if every facet-attached DOF acts on the trace (Lagrange-type)')
        bf = m.boundary_facets()
        F = np.array(sorted({int(bf[int(q) % len(bf)]) for q in c['picks']}), dtype=np.int32)
        if where == 'facets_kw' and c['picks'][0] % 2 == 0:
            F = bf.copy()          # a closed set by construction (the claim below is restricted to closed sets)
        whole = CellBasis(m, build_element(eld), intorder=io)
        dofs = whole.get_dofs(F).flatten()
        z = np.zeros(whole.N)
        z[dofs] = vals[rng.randint(0, len(vals), len(dofs))]
        if where == 'facets':
            fb = FacetBasis(m, e, facets=F, intorder=io)
            y = fb.project(fb.interpolate(z))
        else:
            fb = FacetBasis(m, e, intorder=io)
            zz = np.zeros(whole.N)
            zz[dofs] = z[dofs]
            y = fb.project(fb.interpolate(zz), facets=F)
            # the interpolated field of zz is supported beyond F only through DOFs shared with neighbouring boundary
            # facets; the keyword variant reproduces zz when those are selected too: restrict the claim to closed sets
            other = np.setdiff1d(whole.get_dofs().flatten(), dofs)
            shared = set(whole.get_dofs(np.setdiff1d(bf, F)).flatten().tolist()) & set(dofs.tolist())
            if shared:
                raise Reject()
        ctx.close('project_facets', y, z, 1e-8, 1.0 + np.abs(z).max(), **sig)


PROP = Prop(
    'C06', 'Galerkin exactness end to end (patch test and projection identity)',
    rule=('(a) generated affine-cell meshes of every type (irregular Delaunay, graded, renumbered, mirrored; general convex '
          'quadrilaterals/hexahedra for degree one; prisms) x element whose space contains P_k (P1-P4, bubbles, CR, Q1/Q2/S2, '
          'hierarchical p, tet/hex families; ElementVector for elasticity) x random dyadic polynomial solution of degree <= k x '
          'problem (Poisson, reaction-diffusion, linear elasticity with random Lame parameters) x random split of the boundary '
          'facets into a Dirichlet and a Neumann part: assemble with the library models, constrain get_dofs(Gamma_D) to '
          'FacetBasis.project(u), solve, and require the H1 error against the polynomial (higher quadrature) <= 1e-8 and nodal '
          'values for nodal elements; loads and tractions are derived symbolically (Fractions) from the polynomial; (b) '
          'project(interpolate(z)) == z on whole meshes, subset-constructed bases, the elements= keyword (z vanishing elsewhere), '
          'boundary-part bases and the facets= keyword, curved meshes included. Non-trivial: irregular mesh with a Neumann part, or '
          'degree >= 2 (a); non-whole domain or curved mesh (b)'),
    assumptions=['condensed systems with condition number > 1e9 (e.g. rigid modes left free by a tiny Dirichlet part) are rejected and counted',
                 'prisms have no facet bases: Dirichlet data everywhere through the cell projection',
                 'trace projection identity only for Lagrange-type elements (derivative DOFs make the boundary mass matrix singular by construction)',
                 'keyword variants are projections onto the span of the selected DOFs: tested with z vanishing on the other DOFs'],
    subs=[Sub('patch', body_patch, strategy=case_patch, quick=1500, thorough=20000),
          Sub('project', body_project, strategy=case_project, quick=1200, thorough=15000)],
    design_ref='DESIGN.md section 6, C06')
PROP.rule += ('. Added in round 2: the boundary split is stated as index arrays, by name with the constrained part handed to condense as a dictionary of views (pieces share DOFs where they meet), or by names given on the coarse mesh and carried through refined().')
