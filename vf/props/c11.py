"""C11 -- derived mesh connectivity is coherent with the cell list."""
import numpy as np

from ..core import Prop, Sub
from ..gen import meshes as gm


def strategy(tier):
    big = tier == 'thorough'
    return gm.mesh(max_cells=120 if big else 48, max_cells_3d=60 if big else 24, order2=True, curved=False)


def _fs(a):
    return frozenset(int(v) for v in a)


def body(desc, ctx):
    """tables of a fresh mesh, then -- the tables being cached on the mesh object -- once more after a
    battery of operations that return new meshes and must leave this one alone"""
    from ..cases import build_mesh
    m = build_mesh(desc)
    kind = gm.mesh_kind(desc)
    feat = desc['feat']
    ctx.cls(desc['cls'], *[f for f in feat if f in ('delaunay', 'tensor', 'split', 'holes', 'extruded')])
    ctx.nt(any(f.startswith('renum') or f in ('local-order', 'delaunay', 'split', 'holes', 'extruded') for f in feat))
    tables(desc, ctx, m, 'fresh')
    if ctx.failures:
        return
    t0, p0 = m.t.copy(), m.p.copy()
    try:
        if kind in ('tri', 'tet') and desc['cls'].endswith('1'):
            m.oriented()
        if kind != 'wedge' and m.nelements <= 30:
            m.refined()
        if kind in ('line', 'tri', 'tet') and desc['cls'].endswith('1') and m.nelements <= 30:
            m.refined(np.array([0, m.nelements - 1], dtype=np.int64))        # adaptive: sorts a working copy of the cells internally
        if desc['cls'].endswith('1'):
            m.restrict(np.arange(0, m.nelements, 2))
            m.mirrored(tuple([1.0] + [0.0] * (m.dim() - 1)))
            m.remove_unused_nodes()
        m.translated(tuple([0.5] * m.dim()))
        m.with_boundaries({'b': m.boundary_facets()[:1]}).with_subdomains({'s': np.array([0], dtype=np.int32)})
        m.to_dict() if desc['cls'].endswith('1') and kind != 'wedge' else None
    except NotImplementedError:
        pass
    if not np.array_equal(m.t, t0) or not np.array_equal(m.p, p0):
        ctx.fail('cell_list_changed_by_operation', 'an operation returning a new mesh modified t or p of its operand',
                 mesh=desc['cls'])
    tables(desc, ctx, m, 'after-operations')
    if ctx.failures:
        return
    # meshes DERIVED from this one now that its tables are cached: each is a mesh in its own right
    import skfem
    derived = []
    sib = {'MeshTri1': 'MeshTri2', 'MeshQuad1': 'MeshQuad2', 'MeshTet1': 'MeshTet2', 'MeshHex1': 'MeshHex2', 'MeshLine1': None,
           'MeshTri2': 'MeshTri1', 'MeshQuad2': 'MeshQuad1', 'MeshTet2': 'MeshTet1', 'MeshHex2': 'MeshHex1', 'MeshWedge1': None}
    try:
        cls = type(m)
        derived.append(('from_mesh_same', cls.from_mesh(m)))
        if sib.get(desc['cls']):
            other = getattr(skfem, sib[desc['cls']]).from_mesh(m)
            derived.append(('from_mesh_sibling', other))
            _ = other.facets, other.t2f
            derived.append(('from_mesh_back', cls.from_mesh(other)))
        if kind in ('tri', 'tet') and desc['cls'].endswith('1'):
            mo = m.oriented()
            derived.append(('oriented', mo))
            _ = mo.facets, mo.t2f
            derived.append(('oriented_from_mesh', getattr(skfem, desc['cls']).from_mesh(mo)))
            if sib.get(desc['cls']):
                m2 = getattr(skfem, sib[desc['cls']]).from_mesh(mo)
                _ = m2.facets, m2.t2f
                derived.append(('oriented_sibling_back', getattr(skfem, desc['cls']).from_mesh(m2)))
        if desc['cls'] in ('MeshTri2', 'MeshTet2'):
            # the same cells handed over in the external layout (vertex rows followed by the rows of the extra nodes), vertex
            # rows not ascending, with and without sorting requested: whatever the constructor does to t, the tables must
            # describe the finished cell list
            ext = m.dofs.element_dofs.copy()
            nvr = m.t.shape[0]
            ext[:nvr] = ext[:nvr][::-1]
            derived.append(('external_layout', cls(m.doflocs.copy(), ext.copy())))
            derived.append(('external_layout_sorted', cls(m.doflocs.copy(), ext.copy(), sort_t=True)))
        if desc['cls'].endswith('1') and m.nelements <= 12:
            # the parts of m @ n share one point array: the first ends with, the second starts with vertex numbers it does not use
            parts = m @ m.translated(tuple([float(np.ptp(m.p[0])) + 1.0] + [0.0] * (m.dim() - 1)))
            derived.append(('matmul_first_part', parts[0]))
            derived.append(('matmul_second_part', parts[1]))
        derived.append(('translated', m.translated(tuple([0.5] * m.dim()))))
        derived.append(('tagged', m.with_boundaries({'b': m.boundary_facets()[:1]})))
        if desc['cls'].endswith('1') and m.nelements > 1:
            derived.append(('restricted', m.restrict(np.arange(1, m.nelements))))
    except NotImplementedError:
        pass
    for label, md in derived:
        tables(dict(desc, cls=type(md).__name__), ctx, md, 'derived:' + label, renumber=False)
        if ctx.failures:
            return


def tables(desc, ctx, m, phase, renumber=True):
    from ..oracle.topo import topo_of_mesh
    kind = gm.mesh_kind(desc)
    feat = desc['feat']
    T = topo_of_mesh(m)
    sig = dict(mesh=desc['cls'], phase=phase)
    nc = m.nelements
    d = m.dim()
    nv = m.nvertices
    spare = 'matmul' in phase            # parts of m @ n: vertex numbers no cell uses are allowed there (nvertices = max + 1)
    if (nv != len(T.vertices) or T.vertices != list(range(nv))) and not (spare and T.vertices and max(T.vertices) == nv - 1):
        ctx.fail('nvertices', f'{nv} vs {len(T.vertices)}', **sig)
    # ------------------------------------------------------------------ facets
    facets = m.facets
    keys = [_fs(facets[:, f]) for f in range(facets.shape[1])]
    if m.nfacets != facets.shape[1]:
        ctx.fail('nfacets', '', **sig)
    if len(set(keys)) != len(keys):
        # everything downstream is derived from this table: one root cause, one signature
        ctx.fail('facets_unique', 'a facet appears twice', local_order='local-order' in feat, **sig)
        return
    if set(keys) != set(T.facet_cells):
        ctx.fail('facets_set', f'{len(set(keys) - set(T.facet_cells))} spurious, '
                 f'{len(set(T.facet_cells) - set(keys))} missing', **sig)
        return
    if kind in ('hex',):
        # the vertex cycle of a quadrilateral facet: consecutive vertices span cell edges
        for f in range(facets.shape[1]):
            cyc = [int(v) for v in facets[:, f]]
            if not all(frozenset((cyc[i], cyc[(i + 1) % 4])) in T.edge_cells for i in range(4)):
                ctx.fail('facet_cycle', f'facet {f} vertices {cyc} not in cyclic order', **sig)
                break
    t2f = m.t2f
    if t2f.shape != (len(T.lfacets), nc):
        ctx.fail('t2f_shape', str(t2f.shape), **sig)
    else:
        for c in range(nc):
            for s in range(t2f.shape[0]):
                if keys[t2f[s, c]] != T.cell_facets[c][s]:
                    ctx.fail('t2f_slot', f'cell {c} slot {s}: table {sorted(keys[t2f[s, c]])} '
                             f'expected {sorted(T.cell_facets[c][s])}', **sig)
                    break
            else:
                continue
            break
    f2t = m.f2t
    if f2t.shape != (2, len(keys)):
        ctx.fail('f2t_shape', str(f2t.shape), **sig)
    else:
        for f, k in enumerate(keys):
            a, b = int(f2t[0, f]), int(f2t[1, f])
            cells = T.facet_cells[k]
            if len(cells) > 2:
                continue   # non-manifold input is outside the claim (generator never produces it)
            if a == -1 or ({a, b} - {-1}) != set(cells) or (b == -1) != (len(cells) == 1) or (a == b):
                ctx.fail('f2t', f'facet {f}: table ({a},{b}) expected {cells}', **sig)
                break
    bf = {f for f, k in enumerate(keys) if k in T.boundary_facets}
    got = m.boundary_facets()
    if set(got.tolist()) != bf or len(got) != len(set(got.tolist())):
        ctx.fail('boundary_facets', f'{sorted(set(got.tolist()) ^ bf)[:8]}', **sig)
    if hasattr(m, 'interior_facets'):
        gi = m.interior_facets()
        if set(gi.tolist()) != set(range(len(keys))) - bf:
            ctx.fail('interior_facets', '', **sig)
    bn = m.boundary_nodes()
    if set(bn.tolist()) != T.boundary_vertices:
        ctx.fail('boundary_nodes', f'{sorted(set(bn.tolist()) ^ T.boundary_vertices)[:8]}', **sig)
    inn = [int(v) for v in m.interior_nodes() if v < nv]
    if set(inn) != set(range(nv)) - T.boundary_vertices or len(inn) != len(set(inn)):
        ctx.fail('interior_nodes', f'{sorted(set(inn) ^ (set(range(nv)) - T.boundary_vertices))[:8]}', **sig)
    # ------------------------------------------------------------------ edges (3-D)
    if d == 3:
        edges = m.edges
        ek = [_fs(edges[:, e]) for e in range(edges.shape[1])]
        if m.nedges != len(ek):
            ctx.fail('nedges', '', **sig)
        if len(set(ek)) != len(ek) or set(ek) != set(T.edge_cells):
            ctx.fail('edges_set', '', **sig)
            return
        t2e = m.t2e
        bad = False
        for c in range(nc):
            for s in range(t2e.shape[0]):
                if ek[t2e[s, c]] != T.cell_edges[c][s]:
                    ctx.fail('t2e_slot', f'cell {c} slot {s}', **sig)
                    bad = True
                    break
            if bad:
                break
        be = {e for e, k in enumerate(ek) if k in T.boundary_edges}
        try:
            gb = m.boundary_edges()
            if set(gb.tolist()) != be:
                ctx.fail('boundary_edges', f'{sorted(set(gb.tolist()) ^ be)[:8]}', **sig)
                edges_ok = False
            else:
                edges_ok = True
        except ValueError as e:
            ctx.fail('boundary_edges', f'raises {e!r}', **sig)
            edges_ok = False
        if edges_ok:   # interior_edges is the complement of boundary_edges: same root cause otherwise
            gi = m.interior_edges()
            if set(gi.tolist()) != set(range(len(ek))) - be:
                ctx.fail('interior_edges', '', **sig)
        if kind != 'wedge':
            f2e = m.f2e
            for f, k in enumerate(keys):
                if {ek[e] for e in f2e[:, f]} != T.facet_edges(k):
                    ctx.fail('f2e', f'facet {f}', **sig)
                    break
        P = m.p2e.toarray()
        if P.shape != (len(ek), nv) or not all(set(np.nonzero(P[e])[0].tolist()) == set(ek[e]) for e in range(len(ek))):
            ctx.fail('p2e', '', **sig)
        Et = m.e2t.toarray()
        want = np.zeros((nc, len(ek)), dtype=bool)
        eidx = {k: e for e, k in enumerate(ek)}
        for c in range(nc):
            for k in T.cell_edges[c]:
                want[c, eidx[k]] = True
        if Et.shape != want.shape or not np.array_equal(Et != 0, want):
            ctx.fail('e2t', '', **sig)
    # ------------------------------------------------------------------ incidence
    P = m.p2t.toarray()
    if P.shape != (nc, nv) or not all(set(np.nonzero(P[c])[0].tolist()) == set(T.cells[c]) for c in range(nc)):
        ctx.fail('p2t', '', **sig)
    if np.any((P != 0) & (P != 1)):
        ctx.fail('p2t_values', '', **sig)
    Pf = m.p2f.toarray()
    if Pf.shape != (len(keys), nv) or not all(set(np.nonzero(Pf[f])[0].tolist()) == set(keys[f]) for f in range(len(keys))):
        ctx.fail('p2f', '', **sig)
    # ------------------------------------------------------------------ renumbering invariance
    # reverse vertex numbering and cell order: derived predicates, as coordinate sets, are invariant
    import skfem
    n = m.p.shape[1]
    if renumber and desc['cls'] in gm.CLS1.values():
        perm = np.arange(nv)[::-1].copy()
        p2 = np.empty_like(m.p)
        p2[:, perm] = m.p
        kw = {'sort_t': False} if desc.get('sort_t') is False else {}
        m2 = getattr(skfem, desc['cls'])(p2, perm[m.t][:, ::-1], **kw)

        def coords(mesh, vs):
            return frozenset(tuple(mesh.p[:, int(v)]) for v in vs)
        b1 = {coords(m, m.facets[:, f]) for f in m.boundary_facets()}
        b2 = {coords(m2, m2.facets[:, f]) for f in m2.boundary_facets()}
        if b1 != b2:
            ctx.fail('renumber_boundary_facets', '', **sig)
        if coords(m, m.boundary_nodes()) != coords(m2, m2.boundary_nodes()):
            ctx.fail('renumber_boundary_nodes', '', **sig)
        if d == 3 and edges_ok:
            try:
                e1 = {coords(m, m.edges[:, e]) for e in m.boundary_edges()}
                e2 = {coords(m2, m2.edges[:, e]) for e in m2.boundary_edges()}
                if e1 != e2:
                    ctx.fail('boundary_edges', 'differs after renumbering', **sig)
            except ValueError as e:
                ctx.fail('boundary_edges', f'raises after renumbering {e!r}', **sig)


# ------------------------------------------------------------------------------ large meshes
def large_cases(tier):
    out = [dict(kind='delaunay_tet', npts=300, seed=1), dict(kind='delaunay_tet', npts=450, seed=2),
           dict(kind='refined', cls='MeshTri', levels=9), dict(kind='refined', cls='MeshQuad', levels=8)]
    if tier == 'thorough':
        out += [dict(kind='delaunay_tet', npts=1000, seed=3), dict(kind='refined', cls='MeshQuad', levels=9),
                dict(kind='tensor_tet', n=42), dict(kind='tensor_hex', n=42)]
    return out


def _keys(rows, nv):
    """one int64 key per column of a (k, n) vertex table, rows sorted first"""
    s = np.sort(np.asarray(rows, dtype=np.int64), axis=0)
    key = np.zeros(s.shape[1], dtype=np.int64)
    for r in range(s.shape[0]):
        key = key * np.int64(nv + 1) + s[r]
    return key


def body_large(c, ctx):
    """sizes the random sub-check never reaches: index arithmetic (more than 2^16 vertices: products of vertex numbers exceed
    int32) and library shortcuts that depend on array sizes.  Unstructured tetrahedral meshes of a few hundred points go through
    the brute-force oracle; the very large structured ones through a vectorised int64 re-computation of the same tables."""
    import skfem
    ctx.nt(True)
    ctx.cls('large:' + c['kind'])
    if c['kind'] == 'delaunay_tet':
        from scipy.spatial import Delaunay
        P = np.random.RandomState(c['seed']).rand(c['npts'], 3)        # fixed pseudo-random points: part of the case, not of the search
        T = Delaunay(P).simplices
        vol = np.abs(np.linalg.det(np.moveaxis(P[T[:, 1:]] - P[T[:, :1]], 0, 0)))
        T = T[vol > 1e-9]
        m = skfem.MeshTet(P.T.copy(), T.T.copy().astype(np.int64))
        tables(dict(cls='MeshTet1', feat=['tet', 'delaunay', 'large']), ctx, m, 'large', renumber=False)
        return
    if c['kind'] == 'refined':
        m = getattr(skfem, c['cls'])().refined(c['levels'])
    elif c['kind'] == 'tensor_tet':
        m = skfem.MeshTet.init_tensor(*[np.linspace(0, 1, c['n'])] * 3)
    else:
        m = skfem.MeshHex.init_tensor(*[np.linspace(0, 1, c['n'])] * 3)
    sig = dict(mesh=type(m).__name__, phase='large')
    nv, nc = m.p.shape[1], m.t.shape[1]
    rd = m.elem.refdom
    t = np.asarray(m.t[:rd.nnodes], dtype=np.int64)

    def entity_check(name, ents, table, local, inverse=None):
        ents = np.asarray(ents)
        ek = _keys(ents, nv)
        if len(np.unique(ek)) != len(ek):
            ctx.fail(name + '_unique', f'{len(ek) - len(np.unique(ek))} entities listed more than once', **sig)
            return None
        want = np.unique(np.concatenate([_keys(t[list(lv)], nv) for lv in local]))
        if len(want) != len(ek) or not np.array_equal(np.sort(ek), want):
            ctx.fail(name + '_set', f'{len(ek)} listed, {len(want)} spanned by the cells', **sig)
            return None
        for i, lv in enumerate(local):
            if not np.array_equal(ek[np.asarray(table[i])], _keys(t[list(lv)], nv)):
                bad = int((ek[np.asarray(table[i])] != _keys(t[list(lv)], nv)).sum())
                ctx.fail(name + '_slot', f'local slot {i}: {bad} cells name another entity', **sig)
                return None
        return ek
    fk = entity_check('facets', m.facets, m.t2f, [tuple(f) for f in rd.facets])
    if fk is None:
        return
    if m.dim() == 3:
        if entity_check('edges', m.edges, m.t2e, [tuple(e_) for e_ in rd.edges]) is None:
            return
    # facet -> cells
    t2f = np.asarray(m.t2f)
    cnt = np.bincount(t2f.ravel(), minlength=len(fk))
    f2t = np.asarray(m.f2t)
    if f2t.shape != (2, len(fk)) or cnt.min() < 1 or cnt.max() > 2:
        ctx.fail('f2t_shape', f'{f2t.shape}; facets with {cnt.min()}..{cnt.max()} cells', **sig)
        return
    cells = np.broadcast_to(np.arange(nc), t2f.shape)
    member = (f2t[0][t2f] == cells) | (f2t[1][t2f] == cells)
    if not member.all() or not np.array_equal((f2t[1] != -1).astype(int) + 1, cnt) or (f2t[0] == f2t[1]).any():
        ctx.fail('f2t', f'{int((~member).sum())} (cell, slot) pairs missing from the facet-to-cell table', **sig)
    if not np.array_equal(np.sort(m.boundary_facets()), np.nonzero(cnt == 1)[0]):
        ctx.fail('boundary_facets', '', **sig)
    bn = np.unique(np.asarray(m.facets)[:, cnt == 1])
    if not np.array_equal(np.sort(m.boundary_nodes()), bn):
        ctx.fail('boundary_nodes', '', **sig)


PROP = Prop(
    'C11', 'derived mesh connectivity coherent with the cell list',
    rule=('Hypothesis strategy over mesh descriptors of all ten mesh classes (Delaunay / tensor / simplex-split '
          'quad and hex / extruded prisms; holes; random vertex, cell and admissible local renumbering); every table '
          'is compared with a brute-force recomputation from the cell list with Python sets. Non-trivial: mesh is '
          'renumbered, has holes, or comes from a non-tensor generator. distinct = distinct descriptor hashes'),
    assumptions=['generated meshes are conforming and manifold by construction (facets with > 2 cells never generated)',
                 'reference-cell conventions (local facet/edge vertex lists) are read from skfem.refdom',
                 'second-order meshes: the vertex partition is judged on vertex indices only'],
    subs=[Sub('tables', body, strategy=strategy, quick=1200, thorough=30000),
          Sub('large', body_large, cases=large_cases, max_shards=8)],
    design_ref='DESIGN.md section 6, C11')
PROP.rule += ('. Added in round 2: the same oracle on every mesh DERIVED from the generated one after its tables were cached: from_mesh to the same and the sibling (first/second order) class and back, oriented() and from_mesh of it, second-order simplices re-built from the external layout with and without sort_t, translated, tagged, restricted.')
