"""C09 -- shape functions: derivatives are true derivatives; duality; partition of unity."""
import itertools

import numpy as np
from hypothesis import strategies as st

from ..core import Prop, Sub, Unsupported
from ..gen import elements as ge
from ..gen import meshes as gm

H_REF = 2.0 ** -4
LAT = {'line': 3, 'tri': 3, 'quad': 2, 'tet': 3, 'hex': 2, 'wedge': 2}
DERIV_ATTRS = ['grad', 'div', 'curl', 'hess', 'grad3', 'grad4']


def elem_variants():
    """all registered (non-wrapper) element descriptors incl. the parameter range"""
    out = []
    for n in ge.R:
        if n in ge.PP_RANGE:
            lo, hi = ge.PP_RANGE[n]
            out += [dict(cls=n, p=p) for p in range(lo, hi + 1)]
        else:
            out.append(dict(cls=n))
    return out


# ------------------------------------------------------------------------------ reference level
def ref_cases(tier):
    out = []
    for d in elem_variants():
        info = ge.R[d['cls']]
        if info['family'].startswith('global'):
            continue
        for layout in ('shared', 'percell'):
            if layout == 'percell' and not info['percell']:
                continue
            out.append(dict(elem=d, layout=layout))
    return out


def nbfun(e):
    rd = e.refdom
    d = rd.dim()
    ne = len(rd.edges) if (rd.edges and d == 3) else 0
    nf = len(rd.facets) if d >= 2 else (0)
    return e.nodal_dofs * rd.nnodes + e.edge_dofs * ne + e.facet_dofs * nf + e.interior_dofs


def body_ref(c, ctx):
    from ..cases import build_element
    from ..oracle import fd
    d = c['elem']
    info = ge.R[d['cls']]
    kind = info['ref']
    e = build_element(d)
    lab = ge.label(d)
    sig = dict(elem=lab)
    ctx.cls(info['family'], c['layout'])
    ctx.nt(info['tensor'] > 0 or c['layout'] == 'percell' or (info['deg'] if isinstance(info['deg'], int) else d.get('p', 0)) >= 3)
    X = fd.lattice(kind, LAT[kind])
    dim = X.shape[0]
    if c['layout'] == 'percell':
        X = np.stack([X, X[:, ::-1]], axis=1)     # (dim, 2, npts)
    skeleton = info['family'] == 'skeleton'
    N = nbfun(e)
    for i in range(N):
        e = build_element(d)         # fresh instance per function (caches are C15's subject)
        phi, dphi = e.lbasis(X, i)[:2]
        phi = np.asarray(phi)
        if skeleton:
            continue

        def val(Y, i=i):
            return np.asarray(build_element(d).lbasis(Y, i)[0])
        D = [fd.d_dX(val, X, a, H_REF) for a in range(dim)]      # D[a] has the shape of phi
        mag = 1.0 + max(np.abs(Dk).max() for Dk in D) + np.abs(phi).max()
        fam = info['family']
        if fam in ('hdiv',):
            want = sum(D[a][a] for a in range(dim))
            ctx.close('ref_divergence', dphi, want, 1e-10, mag, i=i, **sig)
        elif fam == 'hcurl':
            if dim == 2:
                want = D[0][1] - D[1][0]
            else:
                want = np.array([D[1][2] - D[2][1], D[2][0] - D[0][2], D[0][1] - D[1][0]])
            ctx.close('ref_curl', dphi, want, 1e-10, mag, i=i, **sig)
        elif fam == 'matrix':
            pass
        else:
            want = np.array(D)
            ctx.close('ref_gradient', dphi, want, 1e-10, mag, i=i, **sig)
        if ctx.failures:
            return
    # ONE instance evaluated at a second point array of the same shape that shares some coordinates with the first (a cell rule
    # followed by another rule containing the same abscissae): the same fields as a fresh instance delivers
    if c['layout'] == 'shared' and not skeleton and X.shape[0] >= 1:
        X2 = X.copy()
        X2[0] = X2[0][::-1]
        if X.shape[0] == 1:
            X2[0, ::2] = X[0, ::2]
        for i in range(N):
            e1 = build_element(d)
            e1.lbasis(X.copy(), i)
            a = e1.lbasis(X2.copy(), i)
            b = build_element(d).lbasis(X2.copy(), i)
            # ... and at an array object it has seen before whose CONTENTS the caller has changed in place meanwhile
            Xb = X.copy()
            e1.lbasis(Xb, i)
            Xb[...] = X2
            a = tuple(a) + tuple(e1.lbasis(Xb, i))
            b = tuple(b) + tuple(build_element(d).lbasis(X2.copy(), i))
            for fa, fb in zip(a, b):
                if fa is None or fb is None:
                    continue
                if not np.array_equal(np.asarray(fa), np.asarray(fb), equal_nan=True):
                    ctx.fail('ref_instance_reuse', f'function {i}: an instance that has been evaluated elsewhere before delivers fields '
                             f'differing by {np.abs(np.asarray(fa, dtype=float) - np.asarray(fb, dtype=float)).max()} from a fresh one', **sig)
                    return
    # the reference vertices given as an INTEGER array (as in hand-written vertex rules [[0, 1]]): the same fields as for floats
    if c['layout'] == 'shared' and not skeleton:
        Xi = np.rint(np.asarray(e.refdom.p)).astype(np.int64)
        for i in range(N):
            a = build_element(d).lbasis(Xi.copy(), i)
            b = build_element(d).lbasis(Xi.astype(float), i)
            for fa, fb in zip(a, b):
                if fa is None or fb is None:
                    continue
                fa, fb = np.asarray(fa, dtype=float), np.asarray(fb, dtype=float)
                if fa.shape != fb.shape or not np.allclose(fa, fb, rtol=0, atol=1e-12 * (1 + np.abs(fb).max()), equal_nan=True):
                    ctx.fail('ref_integer_points', f'function {i}: fields at integer-typed vertex coordinates differ from the fields at '
                             f'the same coordinates as floats by {np.abs(fa - fb).max() if fa.shape == fb.shape else "shape"}', **sig)
                    return
    # both point layouts give the same numbers
    if c['layout'] == 'percell':
        for i in range(N):
            a = np.asarray(build_element(d).lbasis(X, i)[0])
            b = np.asarray(build_element(d).lbasis(X[:, 0, :], i)[0])
            if not np.array_equal(a[..., 0, :], b):
                ctx.fail('ref_layouts_differ', f'function {i}', **sig)
                break


# ------------------------------------------------------------------------------ mapped level
@st.composite
def mapped_case(draw, tier):
    big = tier == 'thorough'
    desc = draw(gm.mesh(max_cells=6, max_cells_3d=3, order2=True, curved=True, allow_holes=False))
    kind = gm.mesh_kind(desc)
    el = draw(ge.wrapped(kind, composite=True, maxcomp=2))
    return dict(mesh=desc, elem=el, pick=draw(st.integers(0, 10**4)), layout=draw(st.sampled_from(['shared', 'percell'])),
                tind=draw(st.sampled_from(['none', 'all', 'subset'])))


def _percell_ok(desc):
    if desc['cls'] in ('ElementVector', 'ElementDG'):
        return _percell_ok(desc['of'])
    if desc['cls'] == 'ElementComposite':
        return all(_percell_ok(x) for x in desc['of'])
    return ge.R[desc['cls']]['percell']


def _has_family(desc, fams):
    if desc['cls'] in ('ElementVector', 'ElementDG'):
        return _has_family(desc['of'], fams)
    if desc['cls'] == 'ElementComposite':
        return any(_has_family(x, fams) for x in desc['of'])
    return ge.R[desc['cls']]['family'] in fams


def body_mapped(c, ctx):
    from ..cases import build_element, build_mesh
    from ..oracle import fd
    desc = c['mesh']
    kind = gm.mesh_kind(desc)
    m = build_mesh(desc)
    e = build_element(c['elem'])
    lab = ge.label(c['elem'])
    affine = 'curved' not in desc['feat'] and (kind in ('line', 'tri', 'tet') or _parallelotopes(kind, m))
    sig = dict(elem=lab if c['elem']['cls'] not in ('ElementComposite',) else 'Composite', affine=affine)
    if _has_family(c['elem'], ('skeleton',)):
        raise Unsupported('skeleton elements live on facets only')
    if _has_family(c['elem'], ('global-c1', 'global-c0', 'global-noncon')):
        # per-cell Vandermonde inversion: needs cells of bounded quality (conditioning, not a defect)
        q = min(gm.simplex_quality(m.p[:, m.t[:, k]][:, :m.dim() + 1]) for k in range(m.nelements)) if kind in ('tri', 'tet', 'line') else 1.0
        if q < 0.05 or not affine:
            # physical-space polynomials composed with a non-affine map have degree > 8 in the reference
            # coordinates: the difference oracle would not be exact there
            raise Unsupported('global elements: quality floor / affine cells')
    layout = c['layout'] if _percell_ok(c['elem']) else 'shared'
    ctx.cls(desc['cls'], 'affine' if affine else 'nonaffine', layout, 'tind:' + c['tind'],
            'mirrored' if 'mirrored' in desc['feat'] else 'not-mirrored')
    ctx.nt(True)
    mapping = m.mapping()
    X0 = fd.lattice(kind, 2 if kind != 'tet' else 3)[:, :6]
    dim = X0.shape[0]
    nc = m.nelements
    if c['tind'] == 'none':
        tind = None
        cells = np.arange(nc)
    elif c['tind'] == 'all':
        tind = np.arange(nc, dtype=np.int32)
        cells = tind
    else:
        tind = np.arange(nc, dtype=np.int32)[::-1][: max(1, nc // 2)].copy()
        cells = tind
    if layout == 'percell':
        if tind is None:
            tind = np.arange(nc, dtype=np.int32)     # per-cell arrays go with an explicit cell list
        X = np.stack([np.roll(X0, k, axis=1) for k in range(len(cells))], axis=1)
    else:
        X = X0
    h = 2.0 ** -4 if affine else 2.0 ** -6
    Nb = nbfun(e) if c['elem']['cls'] not in ('ElementVector', 'ElementDG', 'ElementComposite') else None
    probe = build_element(c['elem'])
    try:
        nb = len(probe.doflocs) if hasattr(probe, 'doflocs') else Nb
    except Exception:
        nb = Nb
    if nb is None:
        from skfem import CellBasis
        nb = CellBasis(m, build_element(c['elem']), intorder=1).Nbfun
    i = c['pick'] % nb

    def ev(Y):
        return build_element(c['elem']).gbasis(mapping, Y, i, tind=tind)

    def Fmap(Y):
        return np.asarray(mapping.F(Y, tind=tind))
    fields = ev(X)
    # the two point layouts describe the same evaluation: shared points replicated per cell
    if _percell_ok(c['elem']) and layout == 'shared':
        t2 = np.arange(nc, dtype=np.int32) if tind is None else tind
        Xp = np.repeat(X0[:, None, :], len(t2), axis=1)
        fp = build_element(c['elem']).gbasis(mapping, Xp, i, tind=t2)
        for comp, (fa, fb) in enumerate(zip(fields, fp)):
            for attr in ['value'] + DERIV_ATTRS:
                a, b = getattr(fa, attr, None), getattr(fb, attr, None)
                if a is None or b is None:
                    continue
                a, b = np.asarray(a), np.asarray(b)
                a = np.broadcast_to(a, b.shape) if a.shape != b.shape and a.ndim == b.ndim else a
                if a.shape != b.shape or not np.allclose(a, b, rtol=1e-12, atol=1e-12 * (1 + np.abs(a).max())):
                    ctx.fail('layouts_differ', f'{attr}: shared (dim, npts) and per-cell (dim, ncells, npts) point arrays '
                             f'give different fields', comp=comp, **sig)
                    return
    # Jacobian of the map by exact differences of F itself (F is judged in C10)
    DF = np.array([fd.d_dX(Fmap, X, a, h) for a in range(dim)])      # DF[a][j] = dx_j/dX_a : (a, j, ncells, npts)
    DF = np.moveaxis(DF, 0, 1)                                       # (j, a, ncells, npts)
    invDF = np.linalg.inv(np.moveaxis(DF, (0, 1), (-2, -1)))         # (..., a, j)
    invDF = np.moveaxis(invDF, (-2, -1), (0, 1))                     # (a, j, ncells, npts)
    tolr = 1e-9 if affine else 2e-6
    if _has_family(c['elem'], ('global-c1', 'global-c0', 'global-noncon')):
        # per-cell Vandermonde inversion in physical monomials: precision degrades with coordinate magnitude and 1/h
        # (observed 1.3e-9 at offset/size 8); the oracle itself stays exact
        R = float(np.abs(m.p).max())
        hmin = float(np.sqrt(((m.p[:, m.facets[0]] - m.p[:, m.facets[-1]]) ** 2).sum(0)).min()) if m.dim() > 1 else float(np.abs(np.diff(np.sort(m.p[0]))).min())
        tolr = 1e-7 * max(1.0, R, 1.0 / max(hmin, 1e-12))
    for comp, f0 in enumerate(fields):
        def phys_grad(getter):
            """physical gradient of the array field getter(fields)[comp]: returns (lead..., j, cells, pts)"""
            dX = [fd.d_dX(lambda Y: np.asarray(getter(ev(Y)[comp])), X, a, h) for a in range(dim)]
            dX = np.array(dX)                                        # (a, lead..., cells, pts)
            return _apply(invDF, dX)
        val = np.asarray(f0.value)
        G = None
        for attr in DERIV_ATTRS:
            got = getattr(f0, attr, None)
            if got is None:
                continue
            got = np.asarray(got)
            if attr in ('grad', 'div', 'curl'):
                if G is None:
                    G = phys_grad(lambda f: f.value)                 # (lead..., j, cells, pts)
                mag = 1.0 + np.abs(G).max()
                if attr == 'grad':
                    want = G
                elif attr == 'div':
                    if val.ndim - 2 == 1:
                        want = sum(G[k, k] for k in range(dim))
                    else:      # matrix valued: row-wise divergence
                        want = np.array([sum(G[r, k, k] for k in range(dim)) for r in range(val.shape[0])])
                else:
                    if dim == 2:
                        want = G[1, 0] - G[0, 1]
                    else:
                        want = np.array([G[2, 1] - G[1, 2], G[0, 2] - G[2, 0], G[1, 0] - G[0, 1]])
                ctx.close('mapped_' + attr, got, want, tolr, mag, comp=comp, **sig)
            else:
                prev = {'hess': 'grad', 'grad3': 'hess', 'grad4': 'grad3'}[attr]
                if getattr(f0, prev, None) is None:
                    continue
                Gp = phys_grad(lambda f, prev=prev: getattr(f, prev))
                mag = 1.0 + np.abs(Gp).max()
                ctx.close('mapped_' + attr, got, Gp, tolr * 10, mag, comp=comp, **sig)
            if ctx.failures:
                return


def _parallelotopes(kind, m):
    from ..oracle import maps
    X = np.array([[0.25, 0.75], [0.5, 0.125], [0.75, 0.25]])[:m.dim()]
    for k in range(m.nelements):
        J = maps.DF1(kind, m.p[:, m.t[:, k]], X)
        if np.abs(J[:, :, 0] - J[:, :, 1]).max() > 1e-13 * (1 + np.abs(J).max()):
            return False
    return True


def _apply(invDF, dX):
    """(grad u)_j = sum_a invDF[a, j] dX[a]; dX: (a, lead..., cells, pts) -> (lead..., j, cells, pts)"""
    a = dX.shape[0]
    lead = dX.shape[1:-2]
    out = np.zeros(lead + (a,) + dX.shape[-2:])
    for j in range(a):
        s = 0.0
        for k in range(a):
            s = s + invDF[k, j] * dX[k]
        out[(Ellipsis, j, slice(None), slice(None))] = s
    return out



# ------------------------------------------------------------------------------ mapped level, enumerated
FIXED = {
    'line': dict(cls='MeshLine1', p=[[0.0, 0.5, 2.0]], t=[[0, 2], [1, 1]], feat=['line', 'fixed', 'mirrored']),
    'tri': dict(cls='MeshTri1', p=[[0.0, 1.5, 0.25, 2.0], [0.0, 0.25, 1.0, 1.5]], t=[[0, 1], [1, 2], [2, 3]],
                feat=['tri', 'fixed', 'mirrored']),
    'quad': dict(cls='MeshQuad1', p=[[0.0, 1.0, 1.25, 0.25, 2.5, 2.25], [0.0, 0.25, 1.25, 1.0, 0.5, 1.75]],
                 t=[[0, 1], [1, 4], [2, 5], [3, 2]], feat=['quad', 'fixed']),
    'tet': dict(cls='MeshTet1', p=[[0.0, 1.0, 0.25, 0.5, 1.5], [0.0, 0.25, 1.0, 0.25, 1.25], [0.0, 0.0, 0.25, 1.5, 1.0]],
                t=[[0, 1], [1, 2], [2, 3], [3, 4]], feat=['tet', 'fixed']),
    'hex': dict(cls='MeshHex1', p=[[0.0, 0.0, 0.125, 1.0, 0.0, 1.125, 1.0, 1.25], [0.0, 0.0, 1.0, 0.125, 1.25, 0.0, 1.0, 1.125],
                                   [0.0, 1.0, 0.0, 0.0, 1.125, 1.0, 0.25, 1.5]],
                t=[[0], [1], [2], [3], [4], [5], [6], [7]], feat=['hex', 'fixed']),
    'wedge': dict(cls='MeshWedge1', p=[[0.0, 0.0, 1.0, 0.125, 0.0, 1.25], [0.0, 1.0, 0.25, 0.0, 1.125, 0.0], [0.0, 0.0, 0.0, 1.0, 1.25, 1.5]],
                  t=[[0], [1], [2], [3], [4], [5]], feat=['wedge', 'fixed']),
}
FIXED2 = {  # second-order curved counterparts
    'tri': dict(FIXED['tri'], cls='MeshTri2', curve=[3, -2, 1, 4, -3, 2], feat=['tri', 'fixed', 'order2', 'curved']),
    'quad': dict(FIXED['quad'], cls='MeshQuad2', curve=[3, -2, 1, 4, -3, 2], feat=['quad', 'fixed', 'order2', 'curved']),
}


HEXBOX = dict(cls='MeshHex1', p=[[0.25, 0.25, 1.75, 1.75, 0.25, 0.25, 1.75, 1.75], [-1.0, -0.5, -1.0, -0.5, -1.0, -0.5, -1.0, -0.5],
                                 [0.5, 0.5, 0.5, 0.5, 1.5, 1.5, 1.5, 1.5]],
              t=[[0], [1], [2], [4], [3], [5], [6], [7]], feat=['hex', 'fixed', 'box'])      # = MeshHex.init_tensor(...)


def mapped_enum_cases(tier):
    out = []
    for d in elem_variants():
        info = ge.R[d['cls']]
        if info['family'] == 'skeleton':
            continue
        kind = info['ref']
        from ..cases import build_element
        n = len(build_element(d).doflocs) if hasattr(build_element(d), 'doflocs') else None
        meshes_ = [FIXED[kind]] + ([FIXED2[kind]] if kind in FIXED2 and not info['family'].startswith('global') else [])
        picks_ = range(n) if n is not None else []
        if d['cls'] == 'ElementHexC1':
            # global elements are judged on affine cells (see body_mapped); the only 3-D one costs ~11 s per local function
            # (64 x 64 Vandermonde with third derivatives): two functions on every change, all of them in the thorough tier
            meshes_ = [HEXBOX]
            picks_ = [0, 37] if tier == 'quick' else range(n)
        for mesh in meshes_:
            if n is None:
                continue
            for i in picks_:
                out.append(dict(mesh=mesh, elem=d, pick=i, layout='shared', tind=['none', 'subset'][i % 2]))
    # composites of one shared element instance (e * e)
    for name in ('ElementTriP1', 'ElementTriP2', 'ElementQuad1', 'ElementTetP1', 'ElementLineP1'):
        kind = ge.R[name]['ref']
        from ..cases import build_element
        comp = dict(cls='ElementComposite', of=[dict(cls=name), dict(cls=name)], share=True)
        for i in range(len(build_element(comp).doflocs)):
            out.append(dict(mesh=FIXED[kind], elem=comp, pick=i, layout='shared', tind='none'))
    return out

# ------------------------------------------------------------------------------ duality etc.
def dual_cases(tier):
    out = []
    for d in elem_variants():
        info = ge.R[d['cls']]
        if info['nodal']:
            out.append(dict(kind='nodal', elem=d))
        if info['pou']:
            out.append(dict(kind='pou', elem=d))
        if d['cls'] in ('ElementTriRT0', 'ElementTriRT1', 'ElementQuadRT0', 'ElementQuadRT1', 'ElementTetRT0',
                        'ElementTetRT1', 'ElementHexRT1'):
            out.append(dict(kind='flux', elem=d))
        if d['cls'] in ('ElementTriN1', 'ElementQuadN1', 'ElementTetN0', 'ElementTetN1'):
            out.append(dict(kind='circulation', elem=d))
        if info['family'].startswith('global'):
            for g in range(len(GEO[info['ref']])):
                out.append(dict(kind='global', elem=d, geo=g))
    # composites (also of one shared instance, e * e): every component is a partition of unity of its own
    for name in ('ElementTriP1', 'ElementTriP2', 'ElementQuad1', 'ElementTetP1', 'ElementLineP2'):
        for share in (True, False):
            out.append(dict(kind='composite_pou', elem=dict(cls='ElementComposite', of=[dict(cls=name), dict(cls=name)], share=share)))
    # wrappers keep the nodal/pou structure componentwise
    # (every nodal element: the wrapper's table of DOF locations must list the point of the SAME local function)
    for dd in elem_variants():
        if ge.R[dd['cls']]['nodal'] and ge.R[dd['cls']]['family'] != 'skeleton':
            out.append(dict(kind='nodal', elem=dict(cls='ElementDG', of=dd)))
    return out


def ref_geometry(kind):
    from ..oracle.maps import ref_vertices
    from skfem import refdom as rd
    R = {'line': rd.RefLine, 'tri': rd.RefTri, 'tet': rd.RefTet, 'quad': rd.RefQuad, 'hex': rd.RefHex}[kind]
    return ref_vertices(kind), R


GEO = {
    'tri': [([[0., 1., 0.], [0., 0., 1.]]), ([[0.5, 2.0, 1.0], [0.25, 0.5, 1.75]]), ([[1., 0., 0.25], [0., 0., 1.5]]),
            ([[-1., 0.5, -0.25], [2., 2.25, 3.5]])],
    'line': [[[0., 1.]], [[0.5, 2.0]], [[3.0, 1.0]], [[-1.0, -0.25]]],
    'quad': [([[0., 1., 1., 0.], [0., 0., 1., 1.]]), ([[0.5, 2.5, 2.5, 0.5], [1., 1., 1.5, 1.5]]),
             ([[0., 2., 2., 0.], [0., 0., 0.5, 0.5]]), ([[-1., 0., 0., -1.], [2., 2., 4., 4.]]),
             ([[0., 1., 1.5, 0.5], [0., 0., 1., 1.]]), ([[0., 2., 1.5, 0.25], [0., 0.25, 1.5, 1.]])],
    'hex': [None, None, None, None],
}


def body_dual(c, ctx):
    import skfem
    from ..cases import build_element
    from ..oracle import fd, maps
    d = c['elem']
    base = d
    while base['cls'] in ('ElementDG', 'ElementVector', 'ElementComposite'):
        base = base['of'][0] if base['cls'] == 'ElementComposite' else base['of']
    info = ge.R[base['cls']]
    kind = info['ref']
    lab = ge.label(d)
    sig = dict(elem=lab, what_kind=c['kind'])
    ctx.cls(c['kind'], info['family'])
    ctx.nt(True)
    if c['kind'] == 'composite_pou':
        from skfem import CellBasis
        from ..cases import build_mesh
        m = build_mesh(FIXED[kind])
        b = CellBasis(m, build_element(d), intorder=3)
        ncomp = len(d['of'])
        for k in range(ncomp):
            s = sum(np.asarray(b.basis[i][k].value) for i in range(b.Nbfun))
            if not np.allclose(s, 1.0, rtol=0, atol=1e-12):
                ctx.fail('partition_of_unity', f'component {k} of the composite sums to {float(np.asarray(s).ravel()[0])!r} instead of 1', **sig)
                return
        return
    if c['kind'] == 'nodal':
        e = build_element(d)
        loc = np.asarray(e.doflocs, dtype=float)
        n = len(loc)
        Mx = np.zeros((n, n))
        for i in range(n):
            phi = np.asarray(build_element(d).lbasis(loc.T.copy(), i)[0])
            Mx[i] = phi
        ctx.close('nodal_duality', Mx, np.eye(n), 1e-12, 1.0, **sig)
    elif c['kind'] == 'pou':
        e = build_element(d)
        X = fd.lattice(kind, LAT[kind], interior=False)
        n = nbfun(e)
        s = 0.0
        g = 0.0
        for i in range(n):
            phi, dphi = build_element(d).lbasis(X, i)[:2]
            s = s + np.asarray(phi)
            g = g + np.asarray(dphi)
        ctx.close('partition_of_unity', s, np.ones_like(s), 1e-12, 1.0, **sig)
        ctx.close('partition_of_unity_gradient', g, np.zeros_like(g), 1e-11, 1.0, **sig)
    elif c['kind'] in ('flux', 'circulation'):
        V, R = ref_geometry(kind)
        cen = V.mean(1)
        e = build_element(d)
        n = nbfun(e)
        ents = R.facets if c['kind'] == 'flux' else (R.edges if kind in ('tet',) else R.facets)
        M = np.zeros((len(ents), n))
        for k, loc in enumerate(ents):
            P = V[:, loc]
            mid = P.mean(1)
            if c['kind'] == 'flux':
                if kind in ('tri', 'quad'):
                    tvec = P[:, 1] - P[:, 0]
                    nrm = np.array([tvec[1], -tvec[0]])
                    meas = np.linalg.norm(tvec)
                else:
                    nrm = np.cross(P[:, 1] - P[:, 0], P[:, 2] - P[:, 0])
                    meas = np.linalg.norm(nrm) * (0.5 if len(loc) == 3 else 1.0)
                nrm = nrm / np.linalg.norm(nrm)
                if nrm @ (mid - cen) < 0:
                    nrm = -nrm
                vec = nrm
            else:
                tvec = P[:, 1] - P[:, 0]
                meas = np.linalg.norm(tvec)
                vec = tvec / meas
            for i in range(n):
                phi = np.asarray(build_element(d).lbasis(mid[:, None].copy(), i)[0])[:, 0]
                M[k, i] = (phi @ vec) * meas
        A = np.abs(M)
        diag = np.diag(A)
        off = A - np.diag(diag)
        if off.max() > 1e-12 or diag.min() < 1e-6 or np.ptp(diag) > 1e-12:
            ctx.fail(c['kind'] + '_duality', f'functional matrix is not c*I up to signs:\n{np.round(M, 6)}', **sig)
        if c['kind'] == 'flux' and not (np.all(np.diag(M) > 0) or np.all(np.diag(M) < 0)):
            ctx.fail('flux_sign', f'outward fluxes have mixed signs: {np.diag(M)}', **sig)
    elif c['kind'] == 'global':
        # defining functionals on a mapped cell, from the delivered value/grad/hess/grad3 fields
        geo = c['geo']
        if kind == 'hex':
            m = skfem.MeshHex.init_tensor(np.array([0., 1.5]) + geo, np.array([0.5, 1.0]), np.array([-1., 0.]) * (1 + geo))
        else:
            P = np.array(GEO[kind][geo], dtype=float)
            cls = {'tri': skfem.MeshTri, 'line': skfem.MeshLine, 'quad': skfem.MeshQuad}[kind]
            if kind == 'line':
                m = cls(P[0])
            else:
                m = cls(P, np.arange(P.shape[1])[:, None])
        e = build_element(d)
        names = e.dofnames
        loc = np.asarray(e.doflocs, dtype=float)
        n = len(loc)
        from skfem import CellBasis
        basis = CellBasis(m, build_element(d), intorder=2)
        mapping = m.mapping()
        rd = e.refdom
        dim = rd.dim()
        # names per local dof: nodal names repeat per vertex, facet names per facet, ...
        per = []
        nn = e.nodal_dofs
        per += [names[k] for _ in range(rd.nnodes) for k in range(nn)]
        off = nn
        nf = e.facet_dofs
        per += [names[off + k] for _ in range(len(rd.facets) if dim >= 2 else 0) for k in range(nf)]
        off += nf
        ne = e.edge_dofs
        if dim == 3:
            per += [names[off + k] for _ in range(len(rd.edges)) for k in range(ne)]
        off += ne
        per += [names[off + k] for k in range(e.interior_dofs)]
        if len(per) != n:
            ctx.fail('dofnames_count', f'{len(per)} names for {n} local DOFs', **sig)
            return
        M = np.zeros((n, n))
        ax = {'x': 0, 'y': 1, 'z': 2}
        known = True
        for i in range(n):
            f = build_element(d).gbasis(mapping, loc.T.copy(), i, tind=np.array([0]))[0]
            for j in range(n):
                nm = per[j]
                if nm == 'u':
                    M[j, i] = np.asarray(f.value)[0, j]
                elif nm.startswith('u_') and nm != 'u_n' and all(ch in ax for ch in nm[2:]):
                    idx = tuple(ax[ch] for ch in nm[2:])
                    arr = {1: f.grad, 2: f.hess, 3: getattr(f, 'grad3', None)}[len(idx)]
                    M[j, i] = np.asarray(arr)[idx + (0, j)]
                elif nm == 'u_n':
                    # normal derivative at the facet point: direction = unit normal of the facet through the point
                    g = np.asarray(f.grad)[:, 0, j]
                    x = np.asarray(mapping.F(loc.T.copy(), tind=np.array([0])))[:, 0, j]
                    # the facet containing x: the one whose two vertices are collinear with x
                    best = None
                    for fl in rd.facets:
                        Pq = m.p[:, m.t[fl, 0]]
                        tv = Pq[:, 1] - Pq[:, 0]
                        r = x - Pq[:, 0]
                        if abs(tv[0] * r[1] - tv[1] * r[0]) < 1e-10:
                            best = tv
                    nv = np.array([best[1], -best[0]]) / np.linalg.norm(best)
                    M[j, i] = abs(g @ nv)
                else:
                    known = False
        if not known:
            raise Unsupported(f'unknown DOF name in {names}')
        ctx.close('global_functionals', np.abs(M), np.eye(n), 1e-8, 1.0, **sig)


PROP = Prop(
    'C09', 'shape functions: derivatives are true derivatives; duality; partition of unity',
    rule=('(a) complete enumeration of every registered element class (parametrised ones over their range) x both point '
          'layouts: every local function\'s delivered derivative field (gradient / divergence / curl) is compared on a dyadic '
          'lattice with an 8th-order central difference of the delivered value field, which is exact for polynomials of '
          'degree <= 8; (b) Hypothesis: mesh (all classes, mirrored, curved, non-affine) x element (incl. Vector/DG/Composite '
          'wrappers and ElementGlobal) x local index x point layout x cell subset: every delivered mapped field (grad, div, '
          'curl, hess, grad3, grad4) == derivative of the delivered global value field pulled back with the Jacobian obtained '
          'by exact differences of the map; (c) enumeration: nodal duality at doflocs, partition of unity, facet fluxes / edge '
          'circulations of lowest-order H(div)/H(curl) elements = c*I, defining functionals of ElementGlobal elements on four '
          'mapped cells. Non-trivial: vector-valued / per-cell layout / degree >= 3 (a); all of (b), (c)'),
    assumptions=['skeleton elements have no interior derivative fields (skipped)',
                 'ElementGlobal elements are judged on straight cells of quality >= 0.05 (per-cell Vandermonde conditioning)',
                 'non-affine cells: step 2^-6, tolerance 2e-6 relative (the pulled-back fields are rational)',
                 'signs of fluxes/circulations are the element\'s orientation convention (C03), only |.| is judged, plus a common sign for fluxes'],
    subs=[Sub('reference', body_ref, cases=ref_cases, max_shards=16),
          Sub('mapped', body_mapped, strategy=mapped_case, quick=400, thorough=10000),
          Sub('mapped_all', body_mapped, cases=mapped_enum_cases, max_shards=16),
          Sub('duality', body_dual, cases=dual_cases, max_shards=16)],
    design_ref='DESIGN.md section 6, C09')
PROP.rule += ('. Added in round 2: ElementHexC1 on an affine box (two local functions in the quick tier, all 64 in the thorough tier; 11 s each); defining functionals of ElementGlobal elements also on a parallelogram and a general quadrilateral.')
