"""C01 -- assembled matrix, vector and scalar represent the weak form."""
import numpy as np
from hypothesis import strategies as st

from ..core import Prop, Reject, Sub, Unsupported
from ..gen import bases as gb
from ..gen import elements as ge
from ..gen import integrands as gi
from ..gen import meshes as gm

UV = st.sampled_from([0.0, 1.0, -1.0, 0.5, -2.0, 3.0, 0.25])


@st.composite
def case(draw, tier):
    big = tier == 'thorough'
    desc = draw(gm.mesh(max_cells=24 if big else 10, max_cells_3d=8 if big else 4, order2=True, curved=True))
    kind = gm.mesh_kind(desc)
    eu = draw(ge.wrapped(kind, costly=big))
    ev = draw(ge.wrapped(kind, costly=big)) if draw(st.integers(0, 3)) > 0 else eu
    kinds = gb.KINDS if kind != 'line' else ['cell', 'cellsub', 'bnd', 'facetsub', 'interior']
    b = draw(gb.basis_desc(kinds=kinds, max_order=4 if kind not in ('hex',) else 3))
    mixed_sides = b['kind'] in ('interior', 'interiorsub') and draw(st.booleans())
    tree = draw(gi.integrand(allow_n=b['kind'] not in ('cell', 'cellsub')))
    return dict(mesh=desc, eu=eu, ev=ev, basis=b, mixed_sides=mixed_sides, tree=tree,
                fmode=draw(st.sampled_from(['vector', 'field', 'array', 'scalar'])),
                nthreads=draw(st.sampled_from([0, 0, 1, 3])),
                seed=draw(st.integers(0, 10**6)))


def ncomp(d):
    return len(d['of']) if d['cls'] == 'ElementComposite' else 1


def body(c, ctx):
    from skfem import BilinearForm, Functional, LinearForm
    from ..cases import build_element, build_mesh
    desc = c['mesh']
    kind = gm.mesh_kind(desc)
    bd = c['basis']
    facetish = bd['kind'] not in ('cell', 'cellsub')
    if facetish and not (gb.facet_supported(kind, c['eu']) and gb.facet_supported(kind, c['ev'])):
        raise Unsupported('facet basis unsupported for this element/mesh (prisms, ElementTriN3)')
    m = build_mesh(desc)
    r = gb.resolve(m, bd, kind)
    eu, ev = build_element(c['eu']), build_element(c['ev'])
    if hasattr(eu, 'doflocs') and hasattr(ev, 'doflocs') and len(eu.doflocs) * len(ev.doflocs) > 1600:
        raise Reject()      # cost bound: local matrices beyond 40 x 40 (several seconds per case) add nothing the smaller ones lack
    su = r['side']
    sv = (1 - su) if (c['mixed_sides'] and r['kind'] in ('interior', 'interiorsub')) else su
    ub = gb.build(m, eu, r, side=su)
    vb = gb.build(m, ev, r, side=sv) if (c['ev'] != c['eu'] or sv != su) else ub
    tree = c['tree']
    nu, nv = ncomp(c['eu']), ncomp(c['ev'])
    cplx = gi.is_complex(tree)
    dtype = np.complex128 if cplx else np.float64
    sig = dict(basis=r['kind'])
    lab = f"{ge.label(c['eu'])} x {ge.label(c['ev'])} on {desc['cls']}"
    ctx.cls(desc['cls'], 'basis:' + r['kind'], 'via:' + r.get('via', 'direct'), 'trial!=test' if c['ev'] != c['eu'] else 'trial==test',
            'complex' if cplx else 'real', f'nthreads={c["nthreads"]}', 'fam:' + (ge.info(c['eu']) or {'family': 'composite'})['family'])
    ctx.nt(c['ev'] != c['eu'] or not gi.symmetric(tree) or r['kind'] != 'cell' or sv != su)
    rng = np.random.RandomState(c['seed'])
    vals = np.array([0.0, 1.0, -1.0, 0.5, -2.0, 3.0, 0.25])
    u = vals[rng.randint(0, len(vals), ub.N)]
    v = vals[rng.randint(0, len(vals), vb.N)]
    fvec = vals[rng.randint(1, len(vals), ub.N)]
    ffield = ub.interpolate(fvec)
    farr = np.array(gi.scalar_of(ffield))
    fscalar = 2.5
    fm = c['fmode']
    if not gi.uses(tree, 'param'):
        fkw = lambda mode: {}                                           # noqa
    else:
        fkw = lambda mode: {'f': {'vector': fvec.copy(), 'field': ffield, 'array': farr.copy(), 'scalar': fscalar}[mode]}   # noqa
    fref = 'scalar' if fm == 'scalar' else 'field'      # what the comparison forms receive

    def form2(*a):
        return gi.eval_tree(tree, a[:nu], a[nu:nu + nv], a[-1])

    def form1(*a):
        return gi.eval_tree(tree, a[-1]['uh'], a[:nv], a[-1])

    def form0(w):
        return gi.eval_tree(tree, w['uh'], w['vh'], w)

    def form0abs(w):
        return gi.eval_tree_abs(tree, w['uh'], w['vh'], w)
    uh, vh = ub.interpolate(u), vb.interpolate(v)
    uh = gi.as_tuple(uh)
    vh = gi.as_tuple(vh)
    # the same coefficients stored in another dtype (single precision; the values are exactly representable) are the same function
    u32 = u.astype(np.float32)
    if np.array_equal(u32.astype(np.float64), u):
        for fa, fb in zip(gi.as_tuple(ub.interpolate(u32)), uh):
            for attr in gi.avail(fb):
                xa, xb = np.asarray(getattr(fa, attr), dtype=np.complex128), np.asarray(getattr(fb, attr), dtype=np.complex128)
                if xa.shape != xb.shape or not np.allclose(xa, xb, rtol=0, atol=1e-12 * (1.0 + np.abs(xb).max())):
                    ctx.fail('coefficient_dtype', f'interpolate(u.astype(float32)).{attr} differs from interpolate(u).{attr} by '
                             f'{np.abs(xa - xb).max() if xa.shape == xb.shape else "shape"} although both vectors hold the same numbers | {lab}', **sig)
                    return
    A = BilinearForm(form2, dtype=dtype, nthreads=c['nthreads']).assemble(ub, vb, **fkw(fm))
    if A.shape != (vb.N, ub.N):
        ctx.fail('shape', f'{A.shape} vs (N_test, N_trial) = ({vb.N}, {ub.N}) | {lab}', **sig)
        return
    if r.get('via', 'direct') != 'direct':
        # a basis obtained by with_element / with_elements / boundary / an explicit quadrature is the basis the constructor gives
        ub0 = gb._build_direct(m, build_element(c['eu']), r, side=su)
        vb0 = gb._build_direct(m, build_element(c['ev']), r, side=sv) if (c['ev'] != c['eu'] or sv != su) else ub0
        A0 = BilinearForm(form2, dtype=dtype).assemble(ub0, vb0, **({'f': fvec.copy()} if gi.uses(tree, 'param') and fm != 'scalar' else fkw(fm)))
        Aa = BilinearForm(form2, dtype=dtype).assemble(ub, vb, **({'f': fvec.copy()} if gi.uses(tree, 'param') and fm != 'scalar' else fkw(fm)))
        if A0.shape != Aa.shape or abs(A0 - Aa).max() > 1e-12 * (1.0 + abs(A0).max()):
            ctx.fail('derived_basis_differs', f'basis obtained via {r["via"]} assembles a different matrix than the directly constructed one '
                     f'({abs(A0 - Aa).max() if A0.shape == Aa.shape else "shape"}) | {lab}', via=r['via'], **sig)
            return
    # the functional is assembled on the trial basis: BilinearForm takes x, h, n from it as well
    J = Functional(form0, dtype=dtype).assemble(ub, uh=uh, vh=vh, **fkw(fref))
    Jabs = float(np.abs(Functional(form0abs).assemble(ub, uh=uh, vh=vh, **fkw(fref))))
    if cplx:
        # a Functional returns what its integrand sums to: a complex integrand needs no dtype= (the keyword sizes the buffers of the
        # two other form types; Functional has none), so the value with the default dtype is the same number
        import warnings
        with warnings.catch_warnings():
            warnings.simplefilter('ignore')
            Jd = Functional(form0).assemble(ub, uh=uh, vh=vh, **fkw(fref))
        if not Jd == J:
            ctx.fail('functional_default_dtype', f'complex integrand: Functional(form).assemble = {Jd!r}, with dtype=complex128 {J!r} | {lab}', **sig)
    vAu = v @ (A @ u)
    # magnitude of what is being summed: the same tree with absolute values (bounds the cancellation inside every entry)
    def form2abs(*a):
        return gi.eval_tree_abs(tree, a[:nu], a[nu:nu + nv], a[-1])
    Aabs = abs(BilinearForm(form2abs).assemble(ub.with_element(ub.elem) if False else ub, vb, **fkw(fm)))
    rowscale = np.asarray(Aabs @ np.abs(u)).ravel()
    S = float(np.abs(v) @ (abs(A) @ np.abs(u))) + Jabs + abs(J) + float(np.abs(v) @ rowscale)
    tol = 1e-9
    detail = f'{lab} | {gi.describe(tree, uh, vh)}'
    if not abs(vAu - J) <= tol * S:
        ctx.fail('bilinear_vs_functional', f'v^T A u = {vAu!r}, J(u_h, v_h) = {J!r}, scale {S:.3e} | {detail}', **sig)
    if sv == su:
        b = LinearForm(form1, dtype=dtype).assemble(vb, uh=uh, **fkw(fref))
        if b.shape != (vb.N,):
            ctx.fail('linear_shape', str(b.shape), **sig)
        else:
            bv = b @ v
            if not abs(bv - J) <= tol * (S + float(np.abs(b) @ np.abs(v))):
                ctx.fail('linear_vs_functional', f'b^T v = {bv!r}, J = {J!r}, scale {S:.3e} | {detail}', **sig)
            Au = A @ u
            if not np.all(np.abs(Au - b) <= tol * (abs(A) @ np.abs(u) + np.abs(b) + rowscale)):
                ctx.fail('matrix_vs_vector', f'A u differs from b(u_h): max {np.abs(Au - b).max():.3e} | {detail}', **sig)
    # elemental contributions
    el = Functional(form0, dtype=dtype).elemental(ub, uh=uh, vh=vh, **fkw(fref))
    if not abs(np.sum(el) - J) <= tol * S:
        ctx.fail('elemental_sum', f'{np.sum(el)!r} vs {J!r}', **sig)
    if np.asarray(el).shape[-1] != ub.nelems:
        ctx.fail('elemental_shape', f'{np.asarray(el).shape} for {ub.nelems} integration entities', **sig)
    coo = BilinearForm(form2, dtype=dtype).elemental(ub, vb, **fkw(fm))
    Ad = A.toarray()
    if not np.allclose(coo.toarray(), Ad, rtol=0, atol=1e-12 * (1 + np.abs(Ad).max())):
        ctx.fail('coo_equiv', 'COOData.toarray() differs from the assembled matrix', **sig)
    # one entry, through unit vectors (catches compensating errors of random contractions)
    if ub.N and vb.N:
        i, j = rng.randint(0, vb.N), rng.randint(0, ub.N)
        # prefer a structurally non-zero entry
        nzr, nzc = A.nonzero()
        if len(nzr):
            k = rng.randint(0, len(nzr))
            i, j = int(nzr[k]), int(nzc[k])
        ei, ej = np.zeros(vb.N), np.zeros(ub.N)
        ei[i], ej[j] = 1.0, 1.0
        kw = dict(uh=gi.as_tuple(ub.interpolate(ej)), vh=gi.as_tuple(vb.interpolate(ei)), **fkw(fref))
        Jij = Functional(form0, dtype=dtype).assemble(ub, **kw)
        Jij_abs = float(np.abs(Functional(form0abs).assemble(ub, **kw)))
        if not abs(A[i, j] - Jij) <= tol * (Jij_abs + abs(Jij) + 1e-300):
            ctx.fail('entry_pick', f'A[{i},{j}] = {A[i, j]!r}, a(phi_{j}, phi_{i}) = {Jij!r} (rows test, columns trial) | {detail}', **sig)
    # integrands that hand one of their inputs straight back (w['g'], w.h): the inputs stay what they were, a second evaluation agrees
    from skfem.element import DiscreteField as _DF
    g = _DF(np.array(np.real(farr), dtype=np.float64, copy=True))
    g0 = np.array(g, copy=True)
    s1 = Functional(lambda w: w['g']).assemble(ub, g=g)
    s2 = Functional(lambda w: w['g']).assemble(ub, g=g)
    h1 = Functional(lambda w: w.h).assemble(ub)
    h2 = Functional(lambda w: w.h).assemble(ub)
    if not np.array_equal(np.asarray(g), g0) or s1 != s2 or h1 != h2:
        ctx.fail('inputs_changed_by_assembly', f'a Functional returning its input: field changed by {np.abs(np.asarray(g) - g0).max():.3e}, '
                 f'two evaluations {s1!r} / {s2!r}, of w.h {h1!r} / {h2!r} | {lab}', **sig)
    # parameter passing modes are interchangeable (bit for bit)
    if gi.uses(tree, 'param') and fm != 'scalar':
        mats = {mode: BilinearForm(form2, dtype=dtype).assemble(ub, vb, **fkw(mode)).toarray() for mode in ('vector', 'field', 'array')}
        # equal up to the rounding of a different summation order (a raw C-ordered array and the interpolated field
        # differ in memory layout, hence in NumPy's pairwise summation): 1e-13 of the absolute-value scale, not bit for bit
        am = 1e-13 * (1.0 + float(abs(Aabs).max()))
        if not (np.allclose(mats['vector'], mats['field'], rtol=0, atol=am) and np.allclose(mats['field'], mats['array'], rtol=0, atol=am)):
            ctx.fail('param_modes', 'coefficient passed as vector / interpolated field / raw array gives different matrices: '
                     f'{np.abs(mats["vector"] - mats["field"]).max():.3e} / {np.abs(mats["field"] - mats["array"]).max():.3e}', **sig)
    # threaded kernel equals serial kernel (exactly)
    if c['nthreads']:
        A0 = BilinearForm(form2, dtype=dtype).assemble(ub, vb, **fkw(fm))
        if (A0 != A).nnz:
            ctx.fail('threaded_vs_serial', f'nthreads={c["nthreads"]}', **sig)
    # a keyword named like a default entry (x, h, n) overrides the default -- in all three form types alike
    for nm in ('x', 'h', 'n'):
        if not gi.uses(tree, nm) or (nm == 'n' and not facetish):
            continue
        from skfem.element import DiscreteField
        base = np.asarray(ub.default_parameters()[nm].value)
        ov = DiscreteField(2.0 * base + 0.25)
        kwo = dict(fkw(fref))
        kwo[nm] = ov
        kwb = dict(fkw(fm))
        kwb[nm] = ov
        Ao = BilinearForm(form2, dtype=dtype).assemble(ub, vb, **kwb)
        Jo = Functional(form0, dtype=dtype).assemble(ub, uh=uh, vh=vh, **kwo)
        So = float(np.abs(v) @ (abs(Ao) @ np.abs(u))) + abs(Jo) + S
        if not abs(v @ (Ao @ u) - Jo) <= tol * So:
            ctx.fail('override_default_parameter', f'keyword {nm}= overriding the default enters the bilinear form and the functional '
                     f'differently: {v @ (Ao @ u)!r} vs {Jo!r} | {detail}', **sig)
        if sv == su:
            bo = LinearForm(form1, dtype=dtype).assemble(vb, uh=uh, **kwo)
            if not abs(bo @ v - Jo) <= tol * (So + float(np.abs(bo) @ np.abs(v))):
                ctx.fail('override_default_parameter', f'keyword {nm}= overriding the default enters the linear form and the functional '
                         f'differently: {bo @ v!r} vs {Jo!r}', **sig)
    # default x equals an explicitly passed copy
    if gi.uses(tree, 'x'):
        x = ub.global_coordinates()

        def form0x(w):
            w2 = dict(w)
            w2['x'] = w['xx']
            return gi.eval_tree(tree, w['uh'], w['vh'], w2)
        Jx = Functional(form0x, dtype=dtype).assemble(ub, uh=uh, vh=vh, xx=x, **fkw(fref))
        if Jx != J:
            ctx.fail('defaults_x', f'{Jx!r} vs {J!r}', **sig)


PROP = Prop(
    'C01', 'assembled matrix, vector and scalar represent the weak form',
    rule=('generated mesh (all classes, curved, renumbered) x independently drawn trial and test elements (every registered '
          'family, Vector/DG/Composite wrappers) x basis kind (cells, cell subset, boundary, facet subset, oriented subset, '
          'interior facets side 0/1, trial and test on different sides) x integration order x integrand tree from a grammar '
          '(delivered fields value/grad/div/curl/hess, arbitrary component contractions, coefficients const/complex/x-monomial/'
          'h/n/parameter) x parameter mode (vector/field/array/scalar) x nthreads x random coefficient vectors. Oracle: '
          'v^T A u == J(u_h, v_h) == b(u_h)^T v, A u == b(u_h), sum of elemental == J, COOData == matrix, one entry A[i,j] == '
          'a(phi_j, phi_i), parameter modes equal (1e-13), threaded == serial. Non-trivial: trial != test, or non-symmetric '
          'tree, or non-default basis kind'),
    assumptions=['facet bases are skipped for prisms and ElementTriN3 (raise by design)',
                 'local matrices larger than 1600 entries are rejected (cost bound, counted)',
                 'tolerance 1e-9 relative to |v|^T|A||u| + integral of |integrand|',
                 'the Functional is assembled on the trial basis because BilinearForm takes w.x/w.h/w.n from it'],
    subs=[Sub('forms', body, strategy=case, quick=700, thorough=20000)],
    design_ref='DESIGN.md section 6, C01')
PROP.rule += ('. Added in round 2: keyword parameters named like the defaults (x, h, n) must override them in BilinearForm, LinearForm and Functional alike.')
