"""C03 -- discrete functions are globally continuous in the sense of the element."""
import numpy as np
from hypothesis import strategies as st

from ..core import Prop, Reject, Sub, Unsupported
from ..gen import elements as ge
from ..gen import meshes as gm

CONF_FAMILIES = ('h1', 'hdiv', 'hcurl', 'matrix', 'global-c1', 'global-c0')
NONCONF = ('noncon', 'global-noncon', 'skeleton')


@st.composite
def case(draw, tier):
    big = tier == 'thorough'
    desc = draw(gm.mesh(max_cells=16 if big else 8, max_cells_3d=8 if big else 4, order2=True, curved=True,
                        sort_t_false=True, min_cells=2))
    kind = gm.mesh_kind(desc)
    k = draw(st.integers(0, 9))
    # ElementHexC1 (64 local functions of degree 6 with third derivatives) costs ~13 s per case: in the quick tier it is
    # covered by a committed replay on two boxes instead of random generation
    base = draw(ge.simple(kind, family=CONF_FAMILIES + NONCONF, costly=tier != 'quick'))
    if k == 8 and ge.R[base['cls']]['scalar'] and not ge.R[base['cls']]['family'].startswith('global'):
        el = {'cls': 'ElementVector', 'of': base}
    elif k == 9 and not ge.R[base['cls']]['family'].startswith('global'):
        other = draw(ge.simple(kind, family=('h1', 'hdiv', 'hcurl')))
        el = {'cls': 'ElementComposite', 'of': [base, other] if draw(st.booleans()) else [other, base]}
    else:
        el = base
    # meshes as users obtain them: also after library operations (refinement keeps/creates the local orders the library
    # itself chooses) and after operations whose result is discarded (they must leave the mesh alone)
    post = draw(st.sampled_from(['none', 'none', 'none', 'adaptive', 'uniform', 'discarded_ops']))
    return dict(mesh=desc, elem=el, seed=draw(st.integers(0, 10**6)), npts=draw(st.integers(1, 3)), post=post,
                marks=draw(st.lists(st.integers(0, 10**4), min_size=1, max_size=4)))


def leaves(desc):
    if desc['cls'] == 'ElementComposite':
        return [x for d in desc['of'] for x in leaves(d)]
    if desc['cls'] in ('ElementVector', 'ElementDG'):
        return leaves(desc['of'])
    return [desc]


def multi_facet_dofs(desc):
    from ..cases import build_element
    for leaf in leaves(desc):
        e = build_element(leaf)
        if e.facet_dofs >= 2:
            return True
        # a single facet DOF that carries a direction (normal derivative of the globally defined plate elements) is
        # built from the same convention -- edges run from the lower to the higher vertex number of a SORTED cell
        # (element_global.py: "direction swapped due to mesh numbering")
        if e.facet_dofs >= 1 and 'u_n' in e.dofnames:
            return True
    return False


def trace_kinds(desc):
    """per component of interpolate()'s result: (kind, vector?)"""
    if desc['cls'] == 'ElementComposite':
        return [x for d in desc['of'] for x in trace_kinds(d)]
    if desc['cls'] == 'ElementVector':
        inner = trace_kinds(desc['of'])
        return [(inner[0][0], True)]
    info = ge.R[desc['cls']]
    return [(info['conf'] if info['family'] in CONF_FAMILIES else ('functional:' + desc['cls']), False)]


def culprit(eld, comp):
    lv = leaves(eld)
    d = lv[min(comp, len(lv) - 1)]
    if 'p' in d:
        return f"{d['cls']}(p{'>=3' if d['p'] >= 3 else '<3'})"
    return d['cls']


def facet_geometry(m, f):
    """unit normal (from cell f2t[0] outward) and tangent basis of a straight facet from vertex coordinates"""
    d = m.dim()
    vs = m.facets[:, f]
    P = m.p[:, vs]
    c0 = m.f2t[0, f]
    cen = m.p[:, m.t[:, c0]].mean(1)
    if d == 1:
        n = np.array([1.0]) if P[0, 0] > cen[0] else np.array([-1.0])
        return n, []
    if d == 2:
        t = P[:, 1] - P[:, 0]
        t = t / np.linalg.norm(t)
        n = np.array([t[1], -t[0]])
        if n @ (P.mean(1) - cen) < 0:
            n = -n
        return n, [t]
    t1 = P[:, 1] - P[:, 0]
    t2 = P[:, 2] - P[:, 0]
    n = np.cross(t1, t2)
    n = n / np.linalg.norm(n)
    if n @ (P.mean(1) - cen) < 0:
        n = -n
    t1 = t1 / np.linalg.norm(t1)
    t2 = np.cross(n, t1)
    return n, [t1, t2]


def project(kindc, val, n, tangents):
    """the component of a one-sided trace that must be single valued; val: (lead..., npts)"""
    val = np.asarray(val)
    if kindc == 'value':
        return val
    if kindc == 'normal':
        return np.einsum('i,i...->...', n, val)
    if kindc == 'tangential':
        return np.array([np.einsum('i,i...->...', t, val) for t in tangents])
    if kindc == 'nn':
        return np.einsum('i,ij...,j->...', n, val, n)
    raise ValueError(kindc)


def body(c, ctx):
    import skfem
    from skfem import InteriorFacetBasis
    from ..cases import build_element, build_mesh
    from ..gen.bases import facet_supported
    from ..oracle import fd, maps
    desc = c['mesh']
    kind = gm.mesh_kind(desc)
    eld = c['elem']
    if kind == 'wedge':
        raise Unsupported('prisms: no facet bases; ElementWedge1 is judged through C06/C14')
    if desc.get('sort_t') is False and multi_facet_dofs(eld):
        raise Reject()       # outside the claim, as the property and the source say
    m = build_mesh(desc)
    post = c.get('post', 'none')
    first_order = desc['cls'].endswith('1')
    if post == 'adaptive' and kind in ('tri', 'tet', 'line') and first_order and m.nelements <= 12:
        m = m.refined(np.array(sorted({int(q) % m.nelements for q in c['marks']}), dtype=np.int64))
    elif post == 'uniform' and kind != 'wedge' and m.nelements <= 6 and 'curved' not in desc['feat']:
        m = m.refined()
    elif post == 'discarded_ops' and first_order:
        _ = m.facets, m.t2f
        if kind in ('tri', 'tet'):
            m.oriented()
        m.translated(tuple([1.0] * m.dim()))
        if m.nelements > 1:
            m.restrict(np.arange(m.nelements - 1))
        m.with_boundaries({'b': m.boundary_facets()[:1]})
    else:
        post = 'none'
    ctx.cls('post:' + post)
    inner = np.nonzero(m.f2t[1] != -1)[0]
    if len(inner) == 0:
        raise Reject()
    curved = 'curved' in desc['feat']
    fams = {ge.R[x['cls']]['family'] for x in leaves(eld)}
    glob = any(f.startswith('global') for f in fams)
    if glob:
        if curved:
            raise Unsupported('global elements on curved cells')
        if kind in ('tri', 'tet') and min(gm.simplex_quality(m.p[:, m.t[:, k]]) for k in range(m.nelements)) < 0.05:
            raise Unsupported('global elements: quality floor 0.05')
        if eld['cls'] in ('ElementQuadBFS', 'ElementHexC1', 'ElementQuad2G'):
            # C1/C0 only on axis-parallel boxes (the mesh families they support)
            for k in range(m.nelements):
                P = m.p[:, m.t[:, k]]
                J = maps.DF1(kind, P, np.full((m.dim(), 1), 0.3))[:, :, 0]
                J2 = maps.DF1(kind, P, np.full((m.dim(), 1), 0.7))[:, :, 0]
                if np.abs(J - np.diag(np.diag(J))).max() > 1e-13 or np.abs(J - J2).max() > 1e-13:
                    raise Unsupported('BFS/HexC1/Quad2G: axis-parallel boxes only')
    tk = trace_kinds(eld)
    lab = ge.label(eld)
    sig = dict(_elem=lab, mesh=desc['cls'][:-1])
    # how differently do the two cells see their shared facets?
    slots = [(int(np.nonzero(m.t2f[:, m.f2t[0, f]] == f)[0][0]), int(np.nonzero(m.t2f[:, m.f2t[1, f]] == f)[0][0])) for f in inner]
    ctx.cls(desc['cls'], 'fam:' + ','.join(sorted(fams)), 'curved' if curved else 'straight')
    ctx.nt(any(a != b for a, b in slots) or 'mirrored' in desc['feat'] or any(f.startswith('renum') or f == 'local-order' for f in desc['feat']))
    rng = np.random.RandomState(c['seed'])
    vals = np.array([1.0, -1.0, 0.5, -2.0, 3.0, 0.25, 1.5])
    rel = 1e-9
    if glob:
        # ElementGlobal inverts, per cell, a Vandermonde matrix of monomials in the PHYSICAL coordinates whose rows mix values with
        # first and second derivatives: its conditioning grows with the coordinate magnitude R and with 1/h, and the precision of the
        # basis with it (observed 1.0e-7 at R = 512).  The yardstick follows; a real discontinuity is a relative jump of 1e-2 or more.
        R = float(np.abs(m.p).max())
        hmin = float(np.sqrt(((m.p[:, m.facets[0]] - m.p[:, m.facets[-1]]) ** 2).sum(0)).min()) if m.dim() > 1 else float(np.abs(np.diff(np.sort(m.p[0]))).min())
        rel = 1e-7 * max(1.0, R, 1.0 / max(hmin, 1e-12))
        # ... and with the power (R/h)^(total degree) of the monomial set, which matters for the tensor-product cubics (degree 9 on a
        # hexahedron: 4.5e-4 observed at R/h = 6, thorough seed 2).  Cases whose yardstick would exceed 1e-4 are outside the supported set.
        e0 = build_element(eld)
        while not hasattr(e0, 'maxdeg') and hasattr(e0, 'elem'):
            e0 = e0.elem
        md = int(getattr(e0, 'maxdeg', 5))
        tot = (md // 2) * m.dim() if getattr(e0, 'tensorial_basis', False) else md
        rel = max(rel, 4e-11 * max(1.0, R / max(hmin, 1e-12)) ** tot)
        if rel > 1e-4:
            raise Unsupported('global elements: Vandermonde matrix of monomials too ill-conditioned for this coordinate range')
    # ------------------------------------------------------------------ route 1: interior facet bases
    facet_ok = facet_supported(kind, eld)
    bkind = {'line': None, 'tri': 'line', 'quad': 'line', 'tet': 'tri', 'hex': 'quad'}[kind]
    if bkind is None:
        Xf = np.zeros((0, 1))
        W = np.ones(1)
    else:
        lat = fd.lattice(bkind, 3)
        Xf = lat[:, rng.choice(lat.shape[1], min(c['npts'] + 1, lat.shape[1]), replace=False)]
        W = np.ones(Xf.shape[1]) / Xf.shape[1]
    functional_points = None
    if any(k.startswith('functional') for k, _ in tk):
        # defining functionals of CR-type elements live at the facet barycentre
        Xf = np.array([[0.5]]) if bkind == 'line' else (np.array([[1 / 3], [1 / 3]]) if bkind == 'tri' else (np.array([[0.5], [0.5]]) if bkind == 'quad' else Xf))
        W = np.ones(1)
    x = None
    # quadrilateral faces of general hexahedra are bilinear surfaces: the normal varies over the face, so the
    # vertex-based normal is only used for simplices/segments; elsewhere the basis' own normals (judged in C10)
    basis_normals = curved or kind == 'hex'
    if facet_ok:
        b0 = InteriorFacetBasis(m, build_element(eld), side=0, quadrature=(Xf, W))
        b1 = InteriorFacetBasis(m, build_element(eld), side=1, quadrature=(Xf, W))
        x0, x1 = np.asarray(b0.global_coordinates().value), np.asarray(b1.global_coordinates().value)
        if not np.allclose(x0, x1, rtol=0, atol=1e-12 * (1 + np.abs(x0).max())):
            ctx.fail('facet_points_differ', 'the two one-sided bases do not use the same physical points', **sig)
            return
        N = b0.N
        u = vals[rng.randint(0, len(vals), N)]
        f0, f1 = b0.interpolate(u), b1.interpolate(u)
        f0 = f0 if isinstance(f0, tuple) else (f0,)
        f1 = f1 if isinstance(f1, tuple) else (f1,)
        nrm = np.asarray(b0.normals.value)
        find = b0.find
        for comp, ((kc, isvec), a, b) in enumerate(zip(tk, f0, f1)):
            for j, f in enumerate(find):
                if kc is None:
                    continue
                if basis_normals:
                    n = None
                else:
                    n, tang = facet_geometry(m, f)
                va, vb = np.asarray(a.value)[..., j, :], np.asarray(b.value)[..., j, :]
                mag = 1.0 + max(np.abs(va).max(), np.abs(vb).max())
                if kc.startswith('functional'):
                    what = kc.split(':')[1]
                    if what in ('ElementTriMorley',):
                        continue      # handled in route 2 (vertex values, midpoint normal derivatives)
                    ja, jb = va, vb      # facet barycentre value
                    name = 'nonconforming_functional'
                elif basis_normals:
                    if kc == 'value':
                        ja, jb = va, vb
                    elif kc == 'normal':
                        nn = nrm[:, j, :]
                        ja, jb = (nn * va).sum(0), (nn * vb).sum(0)
                    elif kc == 'tangential':
                        nn = nrm[:, j, :]
                        if m.dim() == 2:
                            tt = np.array([-nn[1], nn[0]])
                            ja, jb = (tt * va).sum(0), (tt * vb).sum(0)
                        else:
                            ja, jb = np.cross(nn.T, va.T).T, np.cross(nn.T, vb.T).T
                    else:
                        nn = nrm[:, j, :]
                        ja, jb = np.einsum('ip,ijp,jp->p', nn, va, nn), np.einsum('ip,ijp,jp->p', nn, vb, nn)
                    name = 'conformity_' + kc
                else:
                    if isvec and kc == 'value':
                        ja, jb = va, vb
                    else:
                        ja, jb = project(kc, va, n, tang), project(kc, vb, n, tang)
                    name = 'conformity_' + kc
                if not np.allclose(ja, jb, rtol=0, atol=rel * mag):
                    s0, s1 = slots[list(inner).index(f)] if f in inner else (-1, -1)
                    ctx.fail(name, f'facet {int(f)} (local slots {s0}/{s1}): one-sided traces differ by {np.abs(ja - jb).max():.3e} '
                             f'(magnitude {mag:.2e}) | component {comp} of {lab}', route='facetbasis', culprit=culprit(eld, comp), **sig)
                    return
            # C1 elements: gradient continuity
            base_leaf = leaves(eld)[min(comp, len(leaves(eld)) - 1)]
            if ge.R[base_leaf['cls']]['family'] == 'global-c1' and base_leaf['cls'] != 'ElementTriHermite' and not curved:
                ga, gb = np.asarray(a.grad), np.asarray(b.grad)
                mag = 1.0 + max(np.abs(ga).max(), np.abs(gb).max())
                if not np.allclose(ga, gb, rtol=0, atol=1e-6 * mag):
                    ctx.fail('c1_gradient', f'gradient jump {np.abs(ga - gb).max():.3e} (magnitude {mag:.2e}) | {lab}', route='facetbasis', **sig)
                    return
    # ------------------------------------------------------------------ route 2: cell based (straight cells)
    if curved:
        return
    from skfem import CellBasis
    cb = CellBasis(m, build_element(eld), intorder=1)
    N = cb.N
    u = vals[np.random.RandomState(c['seed']).randint(0, len(vals), N)]
    ed = cb.element_dofs
    Nb = ed.shape[0]
    mapping = m.mapping()
    morley = any(k == 'functional:ElementTriMorley' for k, _ in tk)
    # globally defined elements invert a Vandermonde matrix per mesh on first use: one instance per case
    # (one mesh, so the instance cache is sound here); all others get a fresh instance per call
    shared_inst = build_element(eld) if glob else None
    if glob and c['seed'] % 2 == 0 and first_order:
        # ... and that instance has served before, on a sibling mesh made of the same coordinate array with the cells in reverse order
        sib = type(m)(m.p, m.t[:, ::-1])
        if np.array_equal(sib.t, m.t[:, ::-1]):
            CellBasis(sib, shared_inst, intorder=1)
            ctx.cls('instance_primed_on_sibling')
    for f in inner[: (4 if glob else 12)]:
        vs = m.facets[:, f]
        P = m.p[:, vs]
        # physical points on the facet: dyadic convex combinations of its vertices (straight facets)
        if Xf.shape[0] == 0:
            xs = P[:, :1]
        elif Xf.shape[0] == 1:
            xs = P[:, :1] + (P[:, 1:2] - P[:, :1]) * Xf[0]
        elif P.shape[1] == 3:
            xs = P[:, :1] + (P[:, 1:2] - P[:, :1]) * Xf[0] + (P[:, 2:3] - P[:, :1]) * Xf[1]
        else:
            xs = P[:, :1] + (P[:, 1:2] - P[:, :1]) * Xf[0] + (P[:, 3:4] - P[:, :1]) * Xf[1] \
                + (P[:, 0:1] - P[:, 1:2] + P[:, 2:3] - P[:, 3:4]) * Xf[0] * Xf[1]
        if morley:
            xs = np.hstack([P, P.mean(1, keepdims=True)])      # vertices and the midpoint
        n, tang = facet_geometry(m, f)
        if P.shape[1] == 4 and m.dim() == 3:
            # pointwise normal/tangents of the bilinear face from its own parametrisation
            ds = (P[:, 1:2] - P[:, :1]) + (P[:, 0:1] - P[:, 1:2] + P[:, 2:3] - P[:, 3:4]) * Xf[1]
            dt = (P[:, 3:4] - P[:, :1]) + (P[:, 0:1] - P[:, 1:2] + P[:, 2:3] - P[:, 3:4]) * Xf[0]
            nn = np.cross(ds.T, dt.T).T
            nn = nn / np.linalg.norm(nn, axis=0)
            pointwise = (nn, [ds / np.linalg.norm(ds, axis=0), dt / np.linalg.norm(dt, axis=0)])
        else:
            pointwise = None
        sides = []
        for s in (0, 1):
            cell = int(m.f2t[s, f])
            X = maps.invF1(kind, m.p[:, m.t[:, cell]], xs)
            fields = None
            for i in range(Nb):
                g = (shared_inst or build_element(eld)).gbasis(mapping, X, i, tind=np.array([cell], dtype=np.int32))
                if fields is None:
                    fields = [dict(value=0.0, grad=0.0) for _ in g]
                for comp, gf in enumerate(g):
                    fields[comp]['value'] = fields[comp]['value'] + u[ed[i, cell]] * np.asarray(gf.value)[..., 0, :]
                    if getattr(gf, 'grad', None) is not None:
                        fields[comp]['grad'] = fields[comp]['grad'] + u[ed[i, cell]] * np.asarray(gf.grad)[..., 0, :]
            sides.append(fields)
        for comp, (kc, isvec) in enumerate(tk):
            if kc is None:
                continue
            va, vb = sides[0][comp]['value'], sides[1][comp]['value']
            mag = 1.0 + max(np.abs(va).max(), np.abs(vb).max())
            if kc.startswith('functional'):
                what = kc.split(':')[1]
                if what == 'ElementTriMorley':
                    ga, gb = sides[0][comp]['grad'], sides[1][comp]['grad']
                    ja = np.concatenate([va[:2], [n @ ga[:, 2]]])
                    jb = np.concatenate([vb[:2], [n @ gb[:, 2]]])
                    mag = mag + np.abs(ga).max()
                else:
                    ja, jb = va, vb
                name = 'nonconforming_functional'
            elif isvec and kc == 'value':
                ja, jb, name = va, vb, 'conformity_value'
            elif pointwise is not None and kc in ('normal', 'tangential'):
                nn, tt = pointwise
                if kc == 'normal':
                    ja, jb = (nn * va).sum(0), (nn * vb).sum(0)
                else:
                    ja = np.array([(t * va).sum(0) for t in tt])
                    jb = np.array([(t * vb).sum(0) for t in tt])
                name = 'conformity_' + kc
            else:
                ja, jb, name = project(kc, va, n, tang), project(kc, vb, n, tang), 'conformity_' + kc
            if not np.allclose(ja, jb, rtol=0, atol=rel * mag):
                s0, s1 = slots[list(inner).index(f)]
                ctx.fail(name, f'facet {int(f)} (local slots {s0}/{s1}): one-sided traces differ by {np.abs(np.asarray(ja) - np.asarray(jb)).max():.3e} '
                         f'(magnitude {mag:.2e}) | component {comp} of {lab}', route='cells', culprit=culprit(eld, comp), **sig)
                return


PROP = Prop(
    'C03', 'discrete functions are globally continuous in the sense of the element',
    rule=('generated meshes (Delaunay, tensor, simplex-split quads/hexes, holes, jiggled, mirrored, curved second-order) with '
          'random vertex, cell and admissible local renumbering (all simplex orders, quadrilateral shifts, 24 hexahedral '
          'rotations; sort_t=False triangles only with one DOF per facet) x every conforming / non-conforming / C1 element '
          '(plus ElementVector and two-component composites) x random coefficient vector: one-sided traces at the same physical '
          'points of every interior facet, by two routes -- the two InteriorFacetBasis sides, and a cell-based route that '
          'evaluates gbasis in both neighbours at independently inverted reference points -- must agree in the element\'s sense '
          '(value, u.n, tangential part, n.S.n, defining functionals, gradients for C1). Non-trivial: a facet seen through '
          'different local slots by its two cells, or mirrored / renumbered mesh'),
    assumptions=['sort_t=False triangle meshes with several DOFs per facet, or with a direction-carrying facet DOF (normal derivatives of the plate elements), are outside the claim (property text, source comments)',
                 'ElementGlobal family: straight cells of quality >= 0.05, relative tolerance 1e-7; BFS/HexC1/Quad2G on axis-parallel boxes',
                 'prisms have no facet bases; ElementTriN3 is judged through the cell-based route only',
                 'curved meshes: facet-basis route only, normals taken from the basis (judged in C10)'],
    subs=[Sub('continuity', body, strategy=case, quick=2400, thorough=30000)],
    design_ref='DESIGN.md section 6, C03')
PROP.rule += ('. Added in round 2: the mesh is optionally replaced by its adaptive or uniform refinement (local orders as the library itself produces them), or a battery of operations is applied to it and their results discarded (oriented, translated, restrict, with_boundaries) before the traces are compared.')
