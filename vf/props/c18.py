"""C18 -- mesh surgery keeps geometry valid and carries tags to the same entities."""
import hashlib

import numpy as np
from hypothesis import strategies as st
from hypothesis.stateful import initialize, rule

from ..core import Prop, Reject, Sub, Unsupported
from ..gen import meshes as gm
from ..gen import tags as gt
from ..stateful import HistoryMachine, history_body, make_machine


# ------------------------------------------------------------------------------ helpers
def ckey(p, vs):
    """a cell/facet as the frozenset of its vertex coordinate tuples (exact floats)"""
    return frozenset(tuple(p[:, int(v)].tolist()) for v in vs)


def cells_as_sets(m):
    nl = m.elem.refdom.nnodes
    return [ckey(m.p, m.t[:nl, c]) for c in range(m.nelements)]


def facets_as_sets(m, idx):
    return {ckey(m.p, set(m.facets[:, int(f)].tolist())) for f in np.asarray(idx).tolist()}


def mhash(m):
    parts = [m.p, m.t]
    for d in (m.boundaries or {}, m.subdomains or {}):
        for k in sorted(d):
            parts.append(np.asarray(d[k]))
    h = hashlib.sha256()
    for a in parts:
        a = np.ascontiguousarray(a)
        h.update(str(a.dtype).encode() + str(a.shape).encode() + a.tobytes())
    return h.hexdigest()


def tag_sets(m):
    """tags in geometric form: subdomains -> set of coordinate cells; boundaries -> set of coordinate facets"""
    cs = cells_as_sets(m)
    sub = {k: {cs[int(c)] for c in np.asarray(v).tolist()} for k, v in (m.subdomains or {}).items()}
    bnd = {k: facets_as_sets(m, v) for k, v in (m.boundaries or {}).items()}
    return sub, bnd


def validity(ctx, m, sig, manifold=True):
    from ..oracle import geom
    geom.basic_validity(ctx, m, sig)


def pick_cells(picks, n):
    out = []
    for k in picks:
        k = int(k) % n
        if k not in out:
            out.append(k)
    return out


# ------------------------------------------------------------------------------ operations
def op_restrict(ctx, m, step, sig):
    sel = pick_cells(step['picks'], m.nelements)
    if step.get('sorted', True):
        sel = sorted(sel)
    sel = np.array(sel, dtype=np.int64)
    before = mhash(m)
    cs_old = cells_as_sets(m)
    sub_old, bnd_old = tag_sets(m)
    mode = step.get('mode', 'restrict')
    kw = {}
    if mode == 'remove':
        comp = np.setdiff1d(np.arange(m.nelements), sel)
        if len(comp) == 0:
            raise Reject()
        new = m.remove_elements(sel)
        kept = comp
        ix = None
    else:
        if step.get('skip_b'):
            kw['skip_boundaries'] = True
        if step.get('skip_s'):
            kw['skip_subdomains'] = True
        # the selection may be stated in every way normalize_elements documents (the kept cells are then the sorted union)
        arg = sel
        spell = step.get('spell', 'array')
        if spell != 'array' and type(m).__name__.endswith('1'):
            sel = np.unique(sel)
            h2 = len(sel) // 2
            if spell == 'int32':
                arg = sel.astype(np.int32)
            elif spell == 'union':
                arg = [sel[:h2 + 1].astype(np.int32), sel[h2:][::-1].astype(np.int32)]        # overlapping pieces
            elif spell == 'bool_like_list':
                arg = (sel.astype(np.int32),)
            else:
                cen = m.p[:, m.t].mean(axis=1)
                chosen = cen[:, sel]
                hh = np.abs(m.p).max() + 1.0
                if len(np.unique(np.round(cen.T / hh, 9), axis=0)) < m.nelements:
                    raise Reject()      # coinciding centroids: the predicate could not tell the cells apart

                def arg(x, chosen=chosen, hh=hh):
                    return np.array([np.any(np.all(np.abs(chosen - x[:, k:k + 1]) <= 1e-12 * hh, axis=0)) for k in range(x.shape[1])])
        if step.get('mapping'):
            new, ix = m.restrict(arg, return_mapping=True, **kw)
        else:
            new, ix = m.restrict(arg, **kw), None
        kept = sel
    if mhash(m) != before:
        ctx.fail('operand_modified', mode, **sig)
    if m.p.shape[1] > m.nvertices:
        # second-order classes: the node array must still hold every node the cells refer to
        need = int(new.dofs.element_dofs.max()) + 1
        if new.p.shape[1] < need:
            ctx.fail('restrict_second_order_nodes', f'{type(m).__name__}: result has {new.p.shape[1]} node columns, '
                     f'its cells refer to {need}', op=sig['op'])
            return new
    cs_new = cells_as_sets(new)
    want = [cs_old[int(c)] for c in kept]
    if sorted(map(sorted, cs_new)) != sorted(map(sorted, want)):
        ctx.fail('restrict_cells', f'{mode}: kept cells differ from the selected ones', **sig)
        return new
    if mode == 'restrict' and cs_new != want:
        ctx.fail('restrict_cell_order', 'new cell i is not old cell elements[i]', **sig)
    if ix is not None:
        nvn = new.nvertices
        if nvn != len(ix) or not np.array_equal(new.p[:, :nvn], m.p[:, ix]):
            ctx.fail('restrict_vertex_map', 'p_new[:, i] != p_old[:, ix[i]] for the vertices', **sig)
    if m.p.shape[1] > m.nvertices:
        # second-order classes: every kept cell keeps ALL its nodes (edge, face and interior nodes carry the geometry)
        old_nodes = [frozenset(tuple(m.p[:, int(g)].tolist()) for g in m.dofs.element_dofs[:, int(k)]) for k in kept]
        new_nodes = [frozenset(tuple(new.p[:, int(g)].tolist()) for g in new.dofs.element_dofs[:, k]) for k in range(new.nelements)]
        if sorted(map(sorted, old_nodes)) != sorted(map(sorted, new_nodes)):
            ctx.fail('restrict_second_order_geometry', 'the node sets of the kept cells changed', **sig)
        if new.p.shape[1] != len(np.unique(new.dofs.element_dofs)):
            ctx.fail('restrict_unused_nodes', f'{new.p.shape[1]} node columns, {len(np.unique(new.dofs.element_dofs))} in use', **sig)
    validity(ctx, new, sig)
    if type(new) is not type(m):
        ctx.fail('class_changed', type(new).__name__, **sig)
    keptset = set(want)
    sub_new, bnd_new = tag_sets(new)
    if kw.get('skip_subdomains'):
        if new.subdomains is not None:
            ctx.fail('skip_subdomains_ignored', '', **sig)
    elif m.subdomains is not None:
        if set(sub_new) != set(sub_old):
            ctx.fail('restrict_subdomain_names', '', **sig)
        else:
            for k in sub_old:
                if sub_new[k] != (sub_old[k] & keptset):
                    ctx.fail('restrict_subdomain_cells', f'{k}: {len(sub_new[k] ^ (sub_old[k] & keptset))} cells differ', **sig)
                    break
                if len(np.asarray(new.subdomains[k])) != len(sub_new[k]):
                    ctx.fail('restrict_subdomain_duplicates', k, **sig)
    if kw.get('skip_boundaries'):
        if new.boundaries is not None:
            ctx.fail('skip_boundaries_ignored', '', **sig)
    elif m.boundaries is not None:
        newfacets = facets_as_sets(new, np.arange(new.nfacets))
        if set(bnd_new) != set(bnd_old):
            ctx.fail('restrict_boundary_names', '', **sig)
        else:
            for k in bnd_old:
                if bnd_new[k] != (bnd_old[k] & newfacets):
                    ctx.fail('restrict_boundary_facets', f'{k}: {len(bnd_new[k] ^ (bnd_old[k] & newfacets))} facets differ', **sig)
                    break
    return new


def op_transform(ctx, m, step, sig):
    d = m.p.shape[0]
    before = mhash(m)
    kind = step['kind']
    if kind == 'translated':
        v = step['vec'][:d]
        new = m.translated(tuple(v))
        want = m.p + np.array(v)[:, None]
        tol = 0.0
    elif kind == 'scaled':
        v = [x if x != 0 else 1.0 for x in step['vec'][:d]]
        new = m.scaled(tuple(v))
        want = m.p * np.array(v)[:, None]
        tol = 0.0
    elif kind == 'scaled_float':
        f = float(step['vec'][0]) or 2.0
        new = m.scaled(f)
        want = m.p * f
        tol = 0.0
    elif kind == 'mirrored':
        n = np.array([x if i < d else 0 for i, x in enumerate(step['vec'][:d])], dtype=float)
        if not np.any(n):
            n[0] = 1.0
        pt = step.get('point')
        if pt is None:
            new = m.mirrored(tuple(n))
            p0 = np.zeros(d)
        else:
            p0 = np.array(pt[:d], dtype=float)
            new = m.mirrored(tuple(n), tuple(p0))
        nn = n / np.sqrt(n @ n)
        want = m.p - 2 * (nn @ (m.p - p0[:, None]))[None, :] * nn[:, None]
        tol = 1e-12 * (1 + np.abs(m.p).max() + np.abs(p0).max())
    elif kind == 'morphed':
        # one function per coordinate, each a function of the ORIGINAL coordinates: coupled shears
        # (every function reads a coordinate that another one writes), None leaves a coordinate alone
        a = abs(step['vec'][0]) / 4.0
        b = abs(step['vec'][1]) / 8.0
        if d == 1:
            new = m.morphed(lambda p: p[0] + a * p[0])
            want = m.p.copy()
            want[0] = m.p[0] + a * m.p[0]
        else:
            funcs = [lambda p: p[0] + a * p[1], lambda p: p[1] + b * p[0]] + [None] * (d - 2)
            if d == 3 and step['vec'][2] < 0:
                funcs[2] = lambda p: p[2] + a * p[0]
            new = m.morphed(*funcs)
            want = m.p.copy()
            want[0] = m.p[0] + a * m.p[1]
            want[1] = m.p[1] + b * m.p[0]
            if funcs[-1] is not None and d == 3:
                want[2] = m.p[2] + a * m.p[0]
        tol = 0.0
    else:
        raise ValueError(kind)
    if mhash(m) != before:
        ctx.fail('operand_modified', kind, **sig)
    if new.p.shape != want.shape or np.abs(new.p - want).max() > tol:
        ctx.fail('transform_coordinates', f'{kind}: max diff {np.abs(new.p - want).max() if new.p.shape == want.shape else "shape"}', **sig)
    if not np.array_equal(new.t, m.t):
        ctx.fail('transform_connectivity', kind, **sig)
    for a, b in ((m.boundaries, new.boundaries), (m.subdomains, new.subdomains)):
        if (a is None) != (b is None) or (a is not None and (set(a) != set(b) or any(not np.array_equal(np.asarray(a[k]), np.asarray(b[k])) for k in a))):
            ctx.fail('transform_tags', kind, **sig)
    if type(new) is not type(m):
        ctx.fail('class_changed', type(new).__name__, **sig)
    return new


# ------------------------------------------------------------------------------ single-step sub-checks
@st.composite
def case_restrict(draw, tier):
    desc = draw(gm.mesh(max_cells=24, max_cells_3d=10, order2=True, curved=True))
    nc = len(desc['t'][0])
    tg = draw(gt.tags(nc, pools=('boundary', 'interior', 'all'), repeats=True))
    step = dict(op='restrict', picks=draw(st.lists(st.integers(0, 10**4), min_size=1, max_size=nc)),
                sorted=draw(st.booleans()), mode=draw(st.sampled_from(['restrict', 'restrict', 'remove'])),
                mapping=draw(st.booleans()), skip_b=draw(st.integers(0, 5)) == 0, skip_s=draw(st.integers(0, 5)) == 0,
                spell=draw(st.sampled_from(['array', 'array', 'int32', 'predicate', 'union', 'bool_like_list'])))
    return dict(mesh=desc, tags=tg, step=step)


def body_restrict(c, ctx):
    from ..cases import build_mesh, resolve_tags
    m, res = resolve_tags(build_mesh(c['mesh']), c['tags'])
    sig = dict(mesh=c['mesh']['cls'], op=c['step']['mode'])
    sel = pick_cells(c['step']['picks'], m.nelements)
    cut = any(0 < len(set(ix.tolist()) & set(sel)) < len(ix) for ix in res['subdomains'].values())
    ctx.cls(c['mesh']['cls'], c['step']['mode'], 'sorted' if c['step']['sorted'] else 'unsorted')
    ctx.nt(cut or not c['step']['sorted'] or bool(res['boundaries']))
    op_restrict(ctx, m, c['step'], sig)


@st.composite
def case_transform(draw, tier):
    desc = draw(gm.mesh(max_cells=12, max_cells_3d=6, order2=True))
    nc = len(desc['t'][0])
    V = st.sampled_from([0.0, 1.0, -1.0, 0.5, 2.0, -0.25, 3.0])
    step = dict(op='transform', kind=draw(st.sampled_from(['translated', 'scaled', 'scaled_float', 'mirrored', 'morphed'])),
                vec=draw(st.lists(V, min_size=3, max_size=3)),
                point=draw(st.one_of(st.none(), st.lists(V, min_size=3, max_size=3))))
    return dict(mesh=desc, tags=draw(gt.tags(nc)), step=step)


def body_transform(c, ctx):
    from ..cases import build_mesh, resolve_tags
    m, res = resolve_tags(build_mesh(c['mesh']), c['tags'])
    ctx.cls(c['mesh']['cls'], c['step']['kind'])
    ctx.nt(bool(res['subdomains']) or bool(res['boundaries']) or c['mesh']['cls'].endswith('2'))
    op_transform(ctx, m, c['step'], dict(mesh=c['mesh']['cls'], op=c['step']['kind']))


@st.composite
def case_join(draw, tier):
    desc = draw(gm.mesh(kinds=('line', 'tri', 'quad', 'tet', 'hex'), max_cells=10, max_cells_3d=5, allow_affine=False,
                        bases=['tensor'], allow_holes=False, allow_jiggle=False))
    how = draw(st.sampled_from(['add_shift', 'add_mirror', 'add_scaled_mirror', 'add_matmul_parts', 'add_disjoint', 'matmul_one', 'matmul_list', 'rmatmul']))
    return dict(mesh=desc, how=how, n=draw(st.integers(2, 3)))


def body_join(c, ctx):
    import skfem
    from ..cases import build_mesh
    m = build_mesh(c['mesh'])
    d = m.p.shape[0]
    how = c['how']
    sig = dict(mesh=c['mesh']['cls'], op=how)
    ctx.cls(c['mesh']['cls'], how)
    ctx.nt(how != 'add_disjoint')
    width = m.p[0].max() - m.p[0].min()
    shift = [width] + [0.0] * (d - 1)
    before = mhash(m)
    if how.startswith('add'):
        if how == 'add_shift':
            other = m.translated(tuple(shift))
        elif how == 'add_mirror':
            other = m.mirrored(tuple([1.0] + [0.0] * (d - 1)), tuple([float(m.p[0].max())] + [0.0] * (d - 1)))
        elif how == 'add_matmul_parts':
            # the two parts of m @ n share one point array: each part ends with points its own cells do not use
            m, other = m @ m.translated(tuple(shift))
            before = mhash(m)
        elif how == 'add_scaled_mirror':
            # mirror image through x = 0 obtained by scaling: the shared vertices are stored as 0.0 in one operand, -0.0 in the other
            m = m.translated(tuple([-float(m.p[0].min())] + [0.0] * (d - 1)))
            before = mhash(m)
            other = m.scaled(tuple([-1.0] + [1.0] * (d - 1)))
        else:
            other = m.translated(tuple([3 * width + 1.0] + [0.0] * (d - 1)))
        hb = mhash(other)
        new = m + other
        if mhash(m) != before or mhash(other) != hb:
            ctx.fail('operand_modified', how, **sig)
        r = lambda mesh: [frozenset(tuple(np.round(np.array(v), 8).tolist()) for v in cell) for cell in cells_as_sets(mesh)]  # noqa
        want = r(m) + r(other)
        got = cells_as_sets(new)
        if sorted(map(sorted, got)) != sorted(map(sorted, want)):
            ctx.fail('join_cells', 'cells of the sum are not the union of the operands\' cells', **sig)
        allpts = {tuple(np.round(m.p[:, i], 8).tolist()) for i in range(m.p.shape[1])} | \
            {tuple(np.round(other.p[:, i], 8).tolist()) for i in range(other.p.shape[1])}
        if new.p.shape[1] != len(allpts):
            ctx.fail('join_vertices', f'{new.p.shape[1]} vertices, {len(allpts)} distinct coordinates', **sig)
        if type(new) is not type(m):
            ctx.fail('class_changed', '', **sig)
        if how not in ('add_mirror', 'add_scaled_mirror', 'add_matmul_parts'):
            validity(ctx, new, sig)
    else:
        others = [m.translated(tuple([k * width] + [0.0] * (d - 1))) for k in range(1, c['n'] + 1)]
        if how == 'matmul_one':
            out = m @ others[0]
            ops = [m, others[0]]
        elif how == 'matmul_list':
            out = m @ others
            ops = [m] + others
        else:
            out = others[0].__rmatmul__(m) if False else (m.__rmatmul__(others[0]))
            ops = [others[0], m]
        if mhash(m) != before:
            ctx.fail('operand_modified', how, **sig)
        if not isinstance(out, list) or len(out) != len(ops):
            ctx.fail('matmul_result', f'{type(out)} of length {len(out) if isinstance(out, list) else "?"}', **sig)
            return
        for k, (o, g) in enumerate(zip(ops, out)):
            if sorted(map(sorted, cells_as_sets(o))) != sorted(map(sorted, cells_as_sets(g))):
                ctx.fail('matmul_cells', f'mesh {k} of the result does not occupy the cells of operand {k}', **sig)
                break
            if not np.array_equal(g.p, out[0].p):
                ctx.fail('matmul_shared_vertices', '', **sig)
        pts = set()
        for o in ops:
            pts |= {tuple(o.p[:, i].tolist()) for i in range(o.p.shape[1])}
        if out[0].p.shape[1] != len(pts):
            ctx.fail('matmul_vertices', f'{out[0].p.shape[1]} vs {len(pts)} distinct', **sig)


@st.composite
def case_split(draw, tier):
    kind = draw(st.sampled_from(['quad', 'quad', 'hex', 'wedge']))
    if kind == 'quad':
        desc = draw(gm.mesh(kinds=('quad',), max_cells=16))
    elif kind == 'hex':
        desc = draw(gm.mesh(kinds=('hex',), max_cells_3d=6, bases=['tensor'], allow_jiggle=False, local=False))
    else:
        desc = draw(gm.mesh(kinds=('wedge',), max_cells_3d=8, local=False))
    nc = len(desc['t'][0])
    return dict(mesh=desc, tags=draw(gt.tags(nc, pools=('boundary', 'all'))), style=draw(st.sampled_from([None, None, 'x'])))


def body_split(c, ctx):
    from ..cases import build_mesh, resolve_tags
    from ..oracle import geom
    desc = c['mesh']
    kind = gm.mesh_kind(desc)
    m, res = resolve_tags(build_mesh(desc), c['tags'])
    sig = dict(mesh=desc['cls'], style=str(c['style']))
    ctx.cls(desc['cls'], f'style:{c["style"]}')
    ctx.nt(bool(res['subdomains']) or bool(res['boundaries']))
    before = mhash(m)
    if kind == 'quad':
        new = m.to_meshtri(style=c['style']) if c['style'] else m.to_meshtri()
        per = 4 if c['style'] == 'x' else 2
    else:
        new = m.to_meshtet()
        per = 6 if kind == 'hex' else 3
    if mhash(m) != before:
        ctx.fail('operand_modified', '', **sig)
    vol_old = geom.cell_measures(m)
    vol_new = geom.cell_measures(new)
    if new.nelements != per * m.nelements:
        ctx.fail('split_count', f'{new.nelements} vs {per * m.nelements}', **sig)
    if abs(vol_new.sum() - vol_old.sum()) > 1e-10 * vol_old.sum():
        ctx.fail('split_measure', f'{vol_new.sum()!r} vs {vol_old.sum()!r}', **sig)
    if vol_new.min() <= 1e-12 * vol_old.max():
        ctx.fail('split_degenerate', '', **sig)
    parent = geom.parent_map(m, new)
    if parent.min() < 0:
        ctx.fail('split_not_nested', '', **sig)
        return
    sums = np.bincount(parent, weights=vol_new, minlength=m.nelements)
    if not np.allclose(sums, vol_old, rtol=1e-9):
        ctx.fail('split_children_do_not_tile_parent', '', **sig)
    consistent = 'local-order' not in desc['feat']
    if kind == 'wedge':
        # the prism split is conforming when neighbouring prisms list their triangles consistently,
        # which the library's own extrusion guarantees through ascending vertex numbers
        consistent = bool(np.all(np.diff(m.t[:3], axis=0) > 0) and np.all(np.diff(m.t[3:], axis=0) > 0))
    if kind == 'quad' or consistent:
        T = geom.topo(new)
        if max(len(v) for v in T.facet_cells.values()) > 2:
            ctx.fail('split_nonconforming', '', **sig)
        bm0, bm1 = geom.boundary_measure(m), geom.boundary_measure(new, T)
        if kind != 'hex' and abs(bm0 - bm1) > 1e-10 * bm0:
            ctx.fail('split_boundary_measure', f'{bm1!r} vs {bm0!r}', **sig)
    # tags (quadrilateral meshes carry them)
    if kind == 'quad':
        if res['subdomains']:
            ns = new.subdomains
            if ns is None or set(ns) != set(res['subdomains']):
                if any(len(v) for v in res['subdomains'].values()) or ns is not None:
                    ctx.fail('split_subdomain_names', f'{None if ns is None else sorted(ns)}', **sig)
            else:
                for k, ix in res['subdomains'].items():
                    exp = set(np.nonzero(np.isin(parent, ix))[0].tolist())
                    if set(np.asarray(ns[k]).tolist()) != exp:
                        ctx.fail('split_subdomain_cells', k, **sig)
                        break
        if res['boundaries'] and new.boundaries is not None:
            for k, (fix, _) in res['boundaries'].items():
                if k not in new.boundaries:
                    ctx.fail('split_boundary_names', k, **sig)
                    break
                segs = [m.p[:, m.facets[:, f]] for f in fix]
                exp = set()
                for f in range(new.nfacets):
                    P = new.p[:, new.facets[:, f]]
                    if any(all(geom.point_on_segment(P[:, i], Q[:, 0], Q[:, 1], 1e-9) for i in range(2)) for Q in segs):
                        exp.add(f)
                got = set(np.asarray(new.boundaries[k]).tolist())
                if got != exp:
                    ctx.fail('split_boundary_facets', f'{k}: {len(exp - got)} missing, {len(got - exp)} wrong', **sig)
                    break
        elif res['boundaries'] and any(len(f) for f, _ in res['boundaries'].values()):
            ctx.fail('split_boundaries_dropped', '', **sig)


@st.composite
def case_misc(draw, tier):
    what = draw(st.sampled_from(['extrude', 'extrude_line', 'unused', 'duplicate', 'trace', 'oriented', 'retag']))
    if what == 'extrude':
        desc = draw(gm.mesh(kinds=('tri',), max_cells=10))
    elif what == 'extrude_line':
        desc = draw(gm.mesh(kinds=('line',), max_cells=5, allow_affine=False, allow_holes=False))
    elif what == 'oriented':
        desc = draw(gm.mesh(kinds=('tri', 'tet'), max_cells=12, max_cells_3d=8))
    else:
        desc = draw(gm.mesh(max_cells=12, max_cells_3d=6))
    nc = len(desc['t'][0])
    return dict(mesh=desc, what=what, z=draw(gm.axis_coords(draw(st.integers(2, 4)))).tolist(),
                zperm=draw(st.booleans()), picks=draw(st.lists(st.integers(0, 10**4), min_size=1, max_size=8)),
                tags=draw(gt.tags(nc)), extra=draw(st.integers(1, 3)))


def body_misc(c, ctx):
    import skfem
    from ..cases import build_mesh, resolve_tags
    from ..oracle import geom
    desc = c['mesh']
    what = c['what']
    m = build_mesh(desc)
    sig = dict(mesh=desc['cls'], op=what)
    ctx.cls(desc['cls'], what)
    ctx.nt(True)
    before = mhash(m)
    if what == 'extrude':
        z = np.array(c['z'])
        if c['zperm']:
            # the same 1-D mesh with its vertices numbered in another order (explicit connectivity)
            perm = np.random.RandomState(c['extra'] + len(z)).permutation(len(z))
            zz = z[perm]
            inv = np.argsort(perm)
            line = skfem.MeshLine(zz, np.vstack([inv[:-1], inv[1:]]))
        else:
            line = skfem.MeshLine(z)
        new = m * line
        vol = geom.cell_measures(m).sum() * (z.max() - z.min())
        vn = geom.cell_measures(new)
        if abs(vn.sum() - vol) > 1e-10 * vol:
            ctx.fail('extrude_measure', f'{vn.sum()!r} vs {vol!r}', **sig)
        if new.nelements != m.nelements * (len(z) - 1):
            ctx.fail('extrude_count', '', **sig)
        if vn.min() <= 1e-12 * vn.max():
            ctx.fail('extrude_degenerate', '', **sig)
        validity(ctx, new, sig)
    elif what == 'extrude_line':
        z = np.array(c['z'])
        new = m * skfem.MeshLine(z)
        area = (m.p[0].max() - m.p[0].min()) * (z.max() - z.min())
        vn = geom.cell_measures(new)
        if abs(vn.sum() - area) > 1e-10 * area or new.nelements != m.nelements * (len(z) - 1):
            ctx.fail('extrude_measure', f'{vn.sum()!r} vs {area!r}', **sig)
        validity(ctx, new, sig)
    elif what == 'unused':
        k = c['extra']
        p2 = np.hstack([m.p, m.p[:, :1] + 1000.0 + np.arange(k)[None, :]])
        # insert the unused vertices in the middle so indices really shift
        pos = m.p.shape[1] // 2
        order = list(range(pos)) + list(range(m.p.shape[1], m.p.shape[1] + k)) + list(range(pos, m.p.shape[1]))
        inv = np.argsort(order)
        mm = type(m)(p2[:, order], inv[m.t], **({'sort_t': False} if desc.get('sort_t') is False else {}))
        mm, res = resolve_tags(mm, c['tags'])
        s0, b0 = tag_sets(mm)
        new = mm.remove_unused_nodes()
        if new.p.shape[1] != m.p.shape[1]:
            ctx.fail('unused_nodes_remain', f'{new.p.shape[1]} vs {m.p.shape[1]}', **sig)
        if sorted(map(sorted, cells_as_sets(new))) != sorted(map(sorted, cells_as_sets(mm))):
            ctx.fail('cleanup_cells', '', **sig)
        s1, b1 = tag_sets(new)
        if s0 != s1 or b0 != b1:
            ctx.fail('cleanup_tags', 'tags designate other entities after remove_unused_nodes', **sig)
    elif what == 'duplicate':
        # duplicate some vertices: cells that used vertex v now use a copy of it
        nv = m.p.shape[1]
        dup = pick_cells(c['picks'], nv)[:c['extra']]
        p2 = np.hstack([m.p, m.p[:, dup]])
        t2 = m.t.copy()
        for j, v in enumerate(dup):
            cols = np.nonzero((t2 == v).any(0))[0]
            for cc in cols[::2]:
                t2[t2[:, cc] == v, cc] = nv + j
        if len(np.unique(t2)) != p2.shape[1]:
            raise Reject()
        mm = type(m)(p2, t2, **({'sort_t': False} if desc.get('sort_t') is False else {}))
        new = mm.remove_duplicate_nodes()
        if new.p.shape[1] != nv:
            ctx.fail('duplicate_nodes_remain', f'{new.p.shape[1]} vs {nv}', **sig)
        if sorted(map(sorted, cells_as_sets(new))) != sorted(map(sorted, cells_as_sets(m))):
            ctx.fail('cleanup_cells', '', **sig)
        validity(ctx, new, sig)
    elif what == 'trace':
        if gm.mesh_kind(desc) in ('line', 'wedge'):
            raise Unsupported('trace of 1-D/prism meshes')
        fs = np.array(pick_cells(c['picks'], m.nfacets), dtype=np.int64)
        mtype = {'tri': skfem.MeshLine1, 'quad': skfem.MeshLine1, 'tet': skfem.MeshTri1, 'hex': skfem.MeshQuad1}[gm.mesh_kind(desc)]
        new, facets = m.trace(fs, mtype=mtype)
        if set(np.asarray(facets).tolist()) != set(fs.tolist()):
            ctx.fail('trace_facets', '', **sig)
        want = [ckey(m.p, set(m.facets[:, f].tolist())) for f in np.asarray(facets).tolist()]
        nl = new.t.shape[0]
        got = [ckey(new.p, new.t[:, k]) for k in range(new.t.shape[1])]
        if got != want:
            ctx.fail('trace_cells', 'trace cell k is not facet facets[k]', **sig)
        if len(np.unique(new.t)) != new.p.shape[1]:
            ctx.fail('trace_unused_vertices', '', **sig)
    elif what == 'oriented':
        new = m.oriented()
        if sorted(map(sorted, cells_as_sets(new))) != sorted(map(sorted, cells_as_sets(m))):
            ctx.fail('oriented_cells', '', **sig)
        for k in range(new.nelements):
            P = new.p[:, new.t[:, k]]
            if np.linalg.det(P[:, 1:] - P[:, :1]) <= 0:
                ctx.fail('oriented_negative', f'cell {k}', **sig)
                break
        if not np.array_equal(new.p, m.p):
            ctx.fail('oriented_moved_vertices', '', **sig)
    elif what == 'retag':
        mt, res = resolve_tags(m, c['tags'])
        # add further tags through the public helpers, by index array and by predicate
        cells = np.array(pick_cells(c['picks'], m.nelements), dtype=np.int32)
        cen = m.p[:, m.t].mean(1)
        x0 = float(np.median(cen[0]))
        new = mt.with_subdomains({'picked': cells, 'left': lambda x: x[0] <= x0})
        bf = m.boundary_facets()
        fm = m.p[:, m.facets].mean(1)
        y0 = float(np.median(fm[-1]))
        new = new.with_boundaries({'low': lambda x: x[-1] <= y0, 'some': bf[:max(1, len(bf) // 2)]})
        if mhash(mt) != mhash(resolve_tags(m, c['tags'])[0]):
            ctx.fail('operand_modified', '', **sig)
        for k, v in res['subdomains'].items():
            if k not in new.subdomains or not np.array_equal(np.asarray(new.subdomains[k]), v):
                ctx.fail('retag_lost_existing', k, **sig)
        for k, (f, _) in res['boundaries'].items():
            if k not in new.boundaries or not np.array_equal(np.asarray(new.boundaries[k]), f):
                ctx.fail('retag_lost_existing', k, **sig)
        if set(np.asarray(new.subdomains['picked']).tolist()) != set(cells.tolist()):
            ctx.fail('retag_index', '', **sig)
        if set(np.asarray(new.subdomains['left']).tolist()) != set(np.nonzero(cen[0] <= x0)[0].tolist()):
            ctx.fail('retag_predicate_cells', '', **sig)
        wantf = {int(f) for f in bf if fm[-1, f] <= y0}
        if set(np.asarray(new.boundaries['low']).tolist()) != wantf:
            ctx.fail('retag_predicate_facets', '', **sig)
        if not np.array_equal(new.p, m.p) or not np.array_equal(new.t, m.t):
            ctx.fail('retag_changed_mesh', '', **sig)
    if mhash(m) != before:
        ctx.fail('operand_modified', what, **sig)


# ------------------------------------------------------------------------------ histories
class State:
    pass


def new_state(init, ctx):
    from ..cases import build_mesh, resolve_tags
    s = State()
    s.desc = init['mesh']
    s.mesh, _ = resolve_tags(build_mesh(s.desc), init['tags'])
    s.n = 0
    ctx.cls(s.desc['cls'])
    return s


def apply(s, step, ctx):
    sig = dict(mesh=type(s.mesh).__name__, op=step['op'] + ':' + str(step.get('mode') or step.get('kind') or ''))
    if step['op'] == 'restrict':
        if s.mesh.nelements < 2:
            raise Reject()
        new = op_restrict(ctx, s.mesh, step, sig)
    elif step['op'] == 'transform':
        new = op_transform(ctx, s.mesh, step, sig)
    else:
        raise ValueError(step['op'])
    s.mesh = new
    s.n += 1
    ctx.cls('op:' + step['op'])
    if s.n >= 2:
        ctx.nt()


class SurgeryMachine(HistoryMachine):
    @initialize(desc=gm.mesh(max_cells=20, max_cells_3d=8, order2=False), data=st.data())
    def init_mesh(self, desc, data):
        tg = data.draw(gt.tags(len(desc['t'][0]), pools=('boundary', 'interior', 'all')))
        self.start(dict(mesh=desc, tags=tg))

    @rule(picks=st.lists(st.integers(0, 10**4), min_size=1, max_size=24), srt=st.booleans(),
          mode=st.sampled_from(['restrict', 'remove']), mapping=st.booleans())
    def restrict(self, picks, srt, mode, mapping):
        self.do(dict(op='restrict', picks=picks, sorted=srt, mode=mode, mapping=mapping))

    @rule(kind=st.sampled_from(['translated', 'scaled', 'mirrored', 'morphed']),
          vec=st.lists(st.sampled_from([1.0, -1.0, 0.5, 2.0, 0.25]), min_size=3, max_size=3))
    def transform(self, kind, vec):
        self.do(dict(op='transform', kind=kind, vec=vec, point=None))


def machine(tier, sink, agg):
    return make_machine(SurgeryMachine, 'history', sink, agg, new_state, apply)


# ------------------------------------------------------------------------------ sizes beyond 2^16 vertices
def large_cases(tier):
    out = [dict(op='to_meshtri', n=221, style=None), dict(op='to_meshtri', n=221, style='x'), dict(op='restrict', n=260),
           dict(op='add', n=230)]
    if tier == 'thorough':
        out += [dict(op='to_meshtri', n=331, style='x'), dict(op='restrict', n=400)]
    return out


def body_large(c, ctx):
    """index arithmetic at sizes the random sub-checks never reach (products of vertex numbers beyond int32); vectorised oracles"""
    import skfem
    ctx.nt(True)
    ctx.cls('large:' + c['op'])
    n = c['n']
    x = np.linspace(0.0, 1.0, n)
    sig = dict(op=c['op'], large=True)
    sides = {'left': lambda p: p[0] == 0.0, 'right': lambda p: p[0] == 1.0, 'bottom': lambda p: p[1] == 0.0, 'top': lambda p: p[1] == 1.0}
    if c['op'] == 'to_meshtri':
        mq = skfem.MeshQuad.init_tensor(x, x)
        mq = mq.with_boundaries({k: f for k, f in sides.items()}).with_subdomains({'low': lambda p: p[1] < 0.5})
        kw = {'style': c['style']} if c['style'] else {}
        mt = mq.to_meshtri(**kw)
        for name, pred in sides.items():
            got = np.sort(np.asarray(mt.boundaries[name]).astype(np.int64))
            if len(got) and (got.min() < 0 or got.max() >= mt.nfacets):
                ctx.fail('split_boundary_facets', f'{name}: facet index out of range', **sig)
                return
            on = pred(mt.p)
            want = np.nonzero(on[mt.facets[0]] & on[mt.facets[1]])[0]
            if not np.array_equal(got, want):
                ctx.fail('split_boundary_facets', f'{name}: {len(got)} facets named, {len(want)} lie on that side, '
                         f'{len(np.setdiff1d(got, want))} wrong', **sig)
                return
        cen = mt.p[:, mt.t].mean(1)
        if not np.array_equal(np.sort(mt.subdomains['low']), np.nonzero(cen[1] < 0.5)[0]):
            ctx.fail('split_subdomain_cells', 'low', **sig)
    elif c['op'] == 'restrict':
        m = skfem.MeshTri.init_tensor(x, x).with_boundaries({k: f for k, f in sides.items()})
        cen = m.p[:, m.t].mean(1)
        keep = np.nonzero(cen[0] < 0.5)[0]
        r = m.restrict(keep)
        cr = r.p[:, r.t].mean(1)
        if r.nelements != len(keep) or not np.allclose(np.sort(cr[0] + 2 * cr[1]), np.sort(cen[0, keep] + 2 * cen[1, keep]), rtol=0, atol=1e-12):
            ctx.fail('restrict_cells', 'large mesh', **sig)
            return
        for name in ('left', 'bottom', 'top'):
            got = np.sort(np.asarray(r.boundaries[name]).astype(np.int64))
            on = sides[name](r.p)
            mid = r.p[:, r.facets].mean(1)
            want = np.nonzero(on[r.facets[0]] & on[r.facets[1]])[0]
            if not np.array_equal(got, want):
                ctx.fail('restrict_boundary_facets', f'{name}: {len(got)} named, {len(want)} expected', **sig)
                return
    else:
        a = skfem.MeshTri.init_tensor(x, x)
        b = a.translated((1.0, 0.0))
        s = a + b
        if s.p.shape[1] != 2 * n * n - n or s.nelements != 2 * a.nelements:
            ctx.fail('join_vertices', f'{s.p.shape[1]} vertices, {2 * n * n - n} distinct', **sig)
            return
        e1, e2 = s.p[:, s.t[1]] - s.p[:, s.t[0]], s.p[:, s.t[2]] - s.p[:, s.t[0]]
        area = 0.5 * np.abs(e1[0] * e2[1] - e1[1] * e2[0]).sum()
        if abs(area - 2.0) > 1e-9 or len(s.boundary_facets()) != 6 * (n - 1):
            ctx.fail('join_cells', f'area {area}, {len(s.boundary_facets())} boundary facets', **sig)


PROP = Prop(
    'C18', 'mesh surgery keeps geometry valid and carries tags to the same entities',
    rule=('generated tagged meshes of all classes; every operation has an explicit model on cells/facets identified by '
          'their vertex-coordinate sets: restrict/remove (kept cells, order, vertex map, tag intersections, vanished '
          'facets), + and @ joins (union of cells, merged coincident vertices, shared vertex array), quad/hex/prism '
          'splits (count, measure per parent by brute-force location, conformity, carried tags), extrusion (measure = '
          'base x height), rigid/affine transforms (coordinates by formula, t and tags untouched), node clean-up, trace, '
          'oriented, with_boundaries/with_subdomains; plus a rule-based state machine composing restrict/remove/'
          'transform steps. Operand checksums before/after. Non-trivial: subset cutting a tag / unsorted selection / '
          'tagged mesh / joins sharing vertices / histories of >= 2 operations'),
    assumptions=[
                 'hexahedral and prism splits are required to be conforming only for cells in the default local order',
                 'joins are compared at the 1e-8 rounding that + applies',
                 'unoriented boundary tags'],
    subs=[Sub('restrict', body_restrict, strategy=case_restrict, quick=600, thorough=12000),
          Sub('transform', body_transform, strategy=case_transform, quick=400, thorough=6000),
          Sub('join', body_join, strategy=case_join, quick=300, thorough=5000),
          Sub('split', body_split, strategy=case_split, quick=250, thorough=5000),
          Sub('misc', body_misc, strategy=case_misc, quick=500, thorough=8000),
          Sub('history', history_body(new_state, apply), machine=machine, quick=150, thorough=2500, steps=(6, 14)),
          Sub('large', body_large, cases=large_cases, max_shards=8)],
    design_ref='DESIGN.md section 6, C18')
PROP.rule += ('. Added in round 2: m + (mirror image of m obtained with scaled((-1, 1, ..)) after moving m to x >= 0): shared vertices are stored as 0.0 in one operand and -0.0 in the other.')
