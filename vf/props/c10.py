"""C10 -- reference maps, Jacobians, facet maps and normals are mutually consistent."""
import itertools

import numpy as np
from hypothesis import strategies as st

from ..core import Prop, Sub, Unsupported
from ..gen import meshes as gm


@st.composite
def case(draw, tier):
    big = tier == 'thorough'
    desc = draw(gm.mesh(max_cells=16 if big else 8, max_cells_3d=6 if big else 3, order2=True, curved=True))
    return dict(mesh=desc, layout=draw(st.sampled_from(['shared', 'percell'])),
                tind=draw(st.sampled_from(['none', 'sorted', 'unsorted', 'repeated', 'int64', 'permutation', 'permutation'])),
                picks=draw(st.lists(st.integers(0, 10**4), min_size=1, max_size=8)),
                iso=draw(st.booleans()), npts=draw(st.integers(1, 5)), seed=draw(st.integers(0, 10**6)))


def monomials(kind, order):
    if kind in ('line', 'tri', 'tet'):
        d = {'line': 1, 'tri': 2, 'tet': 3}[kind]
        return [e for e in itertools.product(range(order + 1), repeat=d) if sum(e) <= order]
    if kind in ('quad', 'hex'):
        d = 2 if kind == 'quad' else 3
        return list(itertools.product(range(order + 1), repeat=d))
    # wedge: P_k(x, y) x P_k(z)
    return [e for e in itertools.product(range(order + 1), repeat=3) if e[0] + e[1] <= order]


def mono_eval(exps, X):
    return np.array([np.prod([X[k] ** e[k] for k in range(X.shape[0])], axis=0) for e in exps])


def lagrange_map(kind, order, nodes_ref, node_xyz, X):
    """the unique polynomial map of the cell's space with F(nodes_ref[k]) = node_xyz[:, k], at X (dim, npts)"""
    exps = monomials(kind, order)
    V = mono_eval(exps, nodes_ref.T).T               # (nnodes, nmono)
    if V.shape[0] != V.shape[1]:
        raise Unsupported(f'{kind} order {order}: {V.shape}')
    coef = np.linalg.solve(V, node_xyz.T)            # (nmono, dim)
    return (mono_eval(exps, X).T @ coef).T


def ref_facet_points(kind, k, S):
    """points of reference facet k of the cell for facet parameters S (dimf, npts) (affine in S)"""
    from skfem import refdom as rd
    R = {'line': rd.RefLine, 'tri': rd.RefTri, 'tet': rd.RefTet, 'quad': rd.RefQuad, 'hex': rd.RefHex}[kind]
    V = R.p[:, R.facets[k]]
    if kind == 'line':
        return np.repeat(V[:, :1], S.shape[1] if S.ndim == 2 else 1, axis=1)
    if kind in ('tri', 'quad'):
        return V[:, :1] + (V[:, 1:2] - V[:, :1]) * S[0]
    if kind == 'tet':
        return V[:, :1] + (V[:, 1:2] - V[:, :1]) * S[0] + (V[:, 2:3] - V[:, :1]) * S[1]
    # hex facet: vertices are listed cyclically: bilinear parametrisation through 0, 1, 3
    return V[:, :1] + (V[:, 1:2] - V[:, :1]) * S[0] + (V[:, 3:4] - V[:, :1]) * S[1]


def on_ref_facet(kind, k, X, tol):
    from skfem import refdom as rd
    R = {'line': rd.RefLine, 'tri': rd.RefTri, 'tet': rd.RefTet, 'quad': rd.RefQuad, 'hex': rd.RefHex}[kind]
    V = R.p[:, R.facets[k]]
    if kind == 'line':
        return np.abs(X - V[:, :1]).max(0) <= tol
    A = (V[:, 1:] - V[:, :1])
    lam, res, *_ = np.linalg.lstsq(A, X - V[:, :1], rcond=None)
    r = np.abs(A @ lam - (X - V[:, :1])).max(0)
    ok = r <= tol
    ok &= np.all(X >= -tol, axis=0) & np.all(X <= 1 + tol, axis=0)
    if kind in ('tri', 'tet'):
        ok &= X.sum(0) <= 1 + tol
    return ok


def body(c, ctx):
    import skfem
    from skfem.mapping import MappingAffine, MappingIsoparametric
    from ..cases import build_mesh
    from ..oracle import fd, geom
    desc = c['mesh']
    kind = gm.mesh_kind(desc)
    m = build_mesh(desc)
    dim = m.dim()
    order = 2 if desc['cls'].endswith('2') else 1
    curved = 'curved' in desc['feat']
    simplex = kind in ('line', 'tri', 'tet')
    explicit_iso = c['iso'] and simplex and order == 1
    if explicit_iso:
        E = {'line': (skfem.ElementLineP1, None), 'tri': (skfem.ElementTriP1, skfem.ElementLineP1),
             'tet': (skfem.ElementTetP1, skfem.ElementTriP1)}[kind]
        mapping = MappingIsoparametric(m, E[0](), E[1]() if E[1] else None)
        ref_mapping = MappingAffine(m)
    else:
        mapping = m.mapping()
        ref_mapping = None
    mname = type(mapping).__name__
    sig = dict(mapping=mname, layout=c['layout'])
    nc = m.nelements
    picks = [int(k) % nc for k in c['picks']]
    tmode = c['tind']
    if tmode == 'none':
        tind, cells = None, np.arange(nc)
    elif tmode == 'sorted':
        cells = np.unique(picks).astype(np.int32)
        tind = cells
    elif tmode == 'unsorted':
        cells = np.array(list(dict.fromkeys(picks))[::-1], dtype=np.int32)
        tind = cells
    elif tmode == 'repeated':
        cells = np.array(picks, dtype=np.int32)
        tind = cells
    elif tmode == 'permutation':
        # all cells, in another order (as many as the mesh has: per-cell point arrays fit both the subset and the whole mesh)
        cells = np.random.RandomState(c['seed']).permutation(nc).astype(np.int32)
        tind = cells
    else:
        cells = np.unique(picks).astype(np.int64)
        tind = cells
    ctx.cls(desc['cls'], mname, c['layout'], 'tind:' + tmode, 'curved' if curved else 'straight',
            'mirrored' if 'mirrored' in desc['feat'] else 'plain')
    ctx.nt(c['layout'] == 'percell' or tmode != 'none' or curved or 'mirrored' in desc['feat'])
    rng = np.random.RandomState(c['seed'])
    lat = fd.lattice(kind, 3)
    npts = min(c['npts'], lat.shape[1])
    X0 = lat[:, rng.choice(lat.shape[1], npts, replace=False)]
    if c['layout'] == 'percell':
        X = np.stack([lat[:, rng.choice(lat.shape[1], npts, replace=False)] for _ in range(len(cells))], axis=1)
    else:
        X = X0
    Xc = (lambda k: X[:, k, :]) if c['layout'] == 'percell' else (lambda k: X)
    scale = 1.0 + np.abs(m.p).max()
    hcell = max(np.ptp(m.p[:, m.t[:, k]], axis=1).max() for k in range(nc))
    if tind is not None and len(cells) == nc:
        # the same mapping object has been evaluated at the same point array on the whole mesh before (what a basis does)
        mapping.F(X, None), mapping.DF(X, None), mapping.detDF(X, None), mapping.invDF(X, None)
        ctx.cls('primed-with-whole-mesh')
    # ---------------------------------------------------------------- F against the interpolation oracle
    F = np.asarray(mapping.F(X, tind))
    if F.shape != (dim, len(cells), npts):
        ctx.fail('F_shape', f'{F.shape} vs {(dim, len(cells), npts)}', **sig)
        return
    nodes_ref = np.asarray(m.elem.doflocs, dtype=float)
    ed = m.dofs.element_dofs
    for j, k in enumerate(cells):
        want = lagrange_map(kind, order, nodes_ref, m.p[:, ed[:, k]], Xc(j))
        if not np.allclose(F[:, j, :], want, rtol=0, atol=1e-12 * scale):
            ctx.fail('map_formula', f'cell {k}: max diff {np.abs(F[:, j, :] - want).max():.2e}', **sig)
            return
    # ---------------------------------------------------------------- Jacobian, inverse, determinant
    h = 2.0 ** -4
    DF = np.asarray(mapping.DF(X, tind))
    DFfd = np.array([fd.d_dX(lambda Y: np.asarray(mapping.F(Y, tind)), X, a, h) for a in range(dim)])   # (a, j, c, p)
    DFfd = np.moveaxis(DFfd, 0, 1)
    if DF.shape != DFfd.shape:
        ctx.fail('DF_shape', f'{DF.shape} vs {DFfd.shape}', **sig)
        return
    ctx.close('jacobian_fd', DF, DFfd, 1e-10, hcell + 0 * DF, **sig)
    invDF = np.asarray(mapping.invDF(X, tind))
    detDF = np.asarray(mapping.detDF(X, tind))
    prod = np.einsum('ijcp,jkcp->ikcp', invDF, DF)
    eye = np.broadcast_to(np.eye(dim)[:, :, None, None], prod.shape)
    ctx.close('inverse_jacobian', prod, eye, 1e-9, 1.0, **sig)
    dets = np.linalg.det(np.moveaxis(DF, (0, 1), (-2, -1)))
    ctx.close('determinant', detDF, dets, 1e-10, np.abs(dets) + hcell ** dim, **sig)
    # ---------------------------------------------------------------- inverse map round trips
    Xb = np.asarray(mapping.invF(F, tind))
    Xexp = X if c['layout'] == 'percell' else np.repeat(X[:, None, :], len(cells), axis=1)
    ctx.close('inverse_roundtrip', Xb, Xexp, 1e-8, 1.0, **sig)
    if ref_mapping is not None:
        for name, a, b in [('F', F, ref_mapping.F(X, tind)), ('DF', DF, ref_mapping.DF(X, tind)),
                           ('invDF', invDF, ref_mapping.invDF(X, tind)), ('detDF', detDF, ref_mapping.detDF(X, tind)),
                           ('invF', Xb, ref_mapping.invF(F, tind))]:
            b = np.asarray(b)
            mag = 1.0 + np.abs(b).max()
            if a.shape != b.shape or not np.allclose(a, b, rtol=0, atol=1e-11 * mag):
                ctx.fail('affine_vs_iso', f'{name}: shapes {a.shape}/{b.shape}, max diff '
                         f'{np.abs(a - b).max() if a.shape == b.shape else "-"}', **sig)
    # ---------------------------------------------------------------- affine mapping restricted to a subset at construction
    if simplex and order == 1 and tind is not None:
        sub = MappingAffine(m, tind=tind)         # documented: stores only these cells, in this order; per-call tind ignored
        for name, a, b in [('F', F, sub.F(X)), ('F(tind)', F, sub.F(X, tind)), ('DF', DF, sub.DF(X)), ('invDF', invDF, sub.invDF(X)),
                           ('detDF', detDF, sub.detDF(X)), ('invF', Xb, sub.invF(F))]:
            b = np.asarray(b)
            mag = 1.0 + np.abs(b).max()
            if a.shape != b.shape or not np.allclose(a, b, rtol=0, atol=1e-11 * mag):
                ctx.fail('affine_subset_at_construction', f'{name}: shapes {a.shape}/{b.shape}, max diff '
                         f'{np.abs(a - b).max() if a.shape == b.shape else "-"}', **sig)
                break
    # ---------------------------------------------------------------- prisms: no facet maps, but normals from the reference table
    if kind == 'wedge':
        rdm = m.elem.refdom
        Vref = np.asarray(rdm.p, dtype=float)
        for k in range(min(nc, 4)):
            P = m.p[:, m.t[:, k]]
            cenk = P.mean(1)
            for i, lv in enumerate(rdm.facets):
                lv = list(dict.fromkeys(int(v) for v in lv))                   # triangular caps are stored with a repeated vertex
                Yc = Vref[:, lv].mean(1)[:, None]
                fidx = np.array([m.t2f[i, k]], dtype=np.int32)
                N = np.asarray(mapping.normals(Yc, np.array([k], dtype=np.int32), fidx, m.t2f))[:, 0, 0]
                Q = P[:, lv]
                nrm = np.cross(Q[:, 1] - Q[:, 0], Q[:, 2] - Q[:, 0])
                nrm = nrm / np.linalg.norm(nrm)
                if nrm @ (Q.mean(1) - cenk) < 0:
                    nrm = -nrm
                if not np.allclose(N, nrm, rtol=0, atol=1e-9):
                    ctx.fail('normals_outward', f'prism cell {k}, local facet {i}: normal {N.tolist()} instead of the outward unit normal '
                             f'{nrm.tolist()}', **sig)
                    return
        return
    if dim == 1:
        return
    nf = m.nfacets
    fpicks = [int(k) % nf for k in c['picks']]
    if tmode == 'none':
        find, facets = None, np.arange(nf)
    elif tmode in ('sorted', 'int64'):
        facets = np.unique(fpicks).astype(np.int32 if tmode == 'sorted' else np.int64)
        find = facets
    elif tmode == 'unsorted':
        facets = np.array(list(dict.fromkeys(fpicks))[::-1], dtype=np.int32)
        find = facets
    else:
        facets = np.array(fpicks, dtype=np.int32)
        find = facets
    flat = fd.lattice({2: 'line', 3: 'tri' if kind == 'tet' else 'quad'}[dim], 3)
    nq = min(npts, flat.shape[1])
    S0 = flat[:, rng.choice(flat.shape[1], nq, replace=False)]
    if c['layout'] == 'percell':
        S = np.stack([flat[:, rng.choice(flat.shape[1], nq, replace=False)] for _ in range(len(facets))], axis=1)
    else:
        S = S0
    G = np.asarray(mapping.G(S, find=find))
    if G.shape != (dim, len(facets), nq):
        ctx.fail('G_shape', f'{G.shape} vs {(dim, len(facets), nq)}', **sig)
        return
    for side in (0, 1):
        tt = m.f2t[side, facets]
        ok = tt >= 0
        if not ok.any():
            continue
        Y = np.asarray(mapping.invF(G[:, ok, :], tind=tt[ok]))
        for j, (f, cell) in enumerate(zip(facets[ok], tt[ok])):
            slot = int(np.nonzero(m.t2f[:, cell] == f)[0][0])
            if not np.all(on_ref_facet(kind, slot, Y[:, j, :], 1e-8)):
                ctx.fail('facet_map_on_facet', f'facet {f}: G(X) does not lie on local facet {slot} of cell {cell} (side {side})', **sig)
                return
    detDG = np.asarray(mapping.detDG(S, find=find))
    dG = np.array([fd.d_dX(lambda Y: np.asarray(mapping.G(Y, find=find)), S, a, h) for a in range(dim - 1)])   # (a, j, f, p)
    if dim == 2:
        surf = np.sqrt((dG[0] ** 2).sum(0))
        tangents = [dG[0]]
    else:
        cr = np.cross(np.moveaxis(dG[0], 0, -1), np.moveaxis(dG[1], 0, -1))
        surf = np.sqrt((cr ** 2).sum(-1))
        tangents = [dG[0], dG[1]]
    ctx.close('surface_factor', detDG, surf, 1e-9, surf + hcell ** (dim - 1), **sig)
    # ---------------------------------------------------------------- normals
    for side in (0,):
        tt = m.f2t[side, facets]
        Y = np.asarray(mapping.invF(G, tind=tt))
        N = np.asarray(mapping.normals(Y, tt, facets, m.t2f))
        if N.shape != G.shape:
            ctx.fail('normals_shape', f'{N.shape}', **sig)
            return
        ctx.close('normals_unit', (N ** 2).sum(0), np.ones(N.shape[1:]), 1e-10, 1.0, **sig)
        for tg in tangents:
            dots = (N * tg).sum(0) / (hcell + 0 * tg[0])
            ctx.close('normals_orthogonal', dots, 0 * dots, 1e-8, 1.0, **sig)
        cen = np.array([m.p[:, m.t[:, k]].mean(1) for k in tt]).T            # vertex centroid of the cell
        out = ((G - cen[:, :, None]) * N).sum(0)
        if np.any(out <= 0) and not curved:
            ctx.fail('normals_outward', f'normal points into the cell it is taken from for {int((out <= 0).sum())} points', **sig)
    # ---------------------------------------------------------------- normals delivered by the bases, both sides
    inner_f = np.nonzero(m.f2t[1] != -1)[0]
    if len(inner_f) and c['layout'] == 'shared':
        from skfem import InteriorFacetBasis
        W = np.ones(S0.shape[1]) / S0.shape[1]
        ib0 = InteriorFacetBasis(m, m.elem(), side=0, quadrature=(S0, W))
        ib1 = InteriorFacetBasis(m, m.elem(), side=1, quadrature=(S0, W))
        n0, n1 = np.asarray(ib0.normals.value), np.asarray(ib1.normals.value)
        if n0.shape != n1.shape or not np.allclose(n0, n1, rtol=0, atol=1e-9):
            ctx.fail('basis_normals_sides', f'normals of the side-0 and side-1 bases differ by '
                     f'{np.abs(n0 - n1).max() if n0.shape == n1.shape else "shape"} at the same physical points', **sig)
        # a basis on an ORIENTED facet set (mixed orientation) and its counterpart with another element: the same normals
        from skfem import FacetBasis
        from skfem.generic_utils import OrientedBoundary
        ob = OrientedBoundary(inner_f.astype(np.int32), (np.arange(len(inner_f)) % 2).astype(np.int32))
        fo = FacetBasis(m, m.elem(), facets=ob, quadrature=(S0, W))
        fw = fo.with_element(m.elem())
        if not np.array_equal(np.asarray(fo.normals.value), np.asarray(fw.normals.value)):
            ctx.fail('basis_normals_derived', 'with_element() of a basis on an oriented facet set delivers other normals '
                     f'(max difference {np.abs(np.asarray(fo.normals.value) - np.asarray(fw.normals.value)).max():.2e})', **sig)
        dGi = np.array([fd.d_dX(lambda Y: np.asarray(mapping.G(Y, find=ib1.find)), S0, a, h) for a in range(dim - 1)])
        for a in range(dim - 1):
            dots = (n1 * dGi[a]).sum(0) / hcell
            if np.abs(dots).max() > 1e-8:
                ctx.fail('basis_normals_orthogonal', f'side-1 basis normals are not orthogonal to the facet: {np.abs(dots).max():.2e}', **sig)
                break
    # ---------------------------------------------------------------- facet measure and divergence identity
    if tmode == 'none' and c['layout'] == 'shared':
        from skfem import CellBasis, FacetBasis, Functional
        e = m.elem()
        io = 6 if not curved else (10 if kind != 'tet' else 8)
        fb = FacetBasis(m, e, intorder=io)
        cb = CellBasis(m, e, intorder=io)
        if not curved:
            bm = geom.boundary_measure(m, with_info=True)
            got = float(np.sum(fb.dx))
            if bm[2]:
                ctx.close('boundary_measure', got, bm[0], 1e-10, bm[0], **sig)
            vol = float(np.sum(cb.dx))
            ctx.close('volume', vol, geom.cell_measures(m).sum(), 1e-10, vol, **sig)
        flux = float(Functional(lambda w: sum(w.x[k] * w.n[k] for k in range(dim))).assemble(fb))
        vol = float(np.sum(cb.dx))
        tol = 1e-9 if not curved or dim == 2 else 1e-6
        if dim == 3 and curved:
            return
        ctx.close('divergence_identity', flux, dim * vol, tol, abs(vol) * (1 + scale / hcell), **sig)


PROP = Prop(
    'C10', 'reference maps, Jacobians, facet maps and normals are mutually consistent',
    rule=('generated meshes of all ten classes (curved second-order, mirrored, renumbered) x point layout (shared / per-cell) x '
          'cell and facet subset argument (None, sorted, unsorted, repeated, int64) x affine or explicitly isoparametric '
          'mapping: F == the unique polynomial map of the cell space through the node coordinates (independent Vandermonde '
          'construction); DF == exact differences of F; invDF*DF == I; detDF == det DF; invF(F(X)) == X; G(X) lies on the '
          'reference facet named by t2f for both neighbours; detDG == |dG/ds (x dG/dt)| from differences of G; normals unit, '
          'orthogonal to the tangents of G, pointing out of the cell; sum of facet dx == boundary measure; boundary integral '
          'of x.n == d * volume; affine and isoparametric implementations agree on straight simplices. Non-trivial: per-cell '
          'layout or subset argument or curved or mirrored'),
    assumptions=['prisms have no facet maps (no boundary reference cell)',
                 'outwardness is judged on straight cells (vertex centroid inside the convex cell)',
                 'divergence identity on curved 3-D meshes is skipped (face quadrature of rational surface factors)'],
    subs=[Sub('maps', body, strategy=case, quick=700, thorough=15000)],
    design_ref='DESIGN.md section 6, C10')
PROP.rule += ('. Added in round 2: MappingAffine(mesh, tind=subset) (subset sorted / unsorted / repeated) against the full mapping called with the same subset.')
