"""C12 -- uniform refinement preserves domain, conformity and named regions."""
import numpy as np
from hypothesis import strategies as st

from ..core import Prop, Sub, Unsupported
from ..gen import meshes as gm
from ..gen import tags as gt


@st.composite
def case(draw, tier):
    big = tier == 'thorough'
    desc = draw(gm.mesh(kinds=('line', 'tri', 'quad', 'tet', 'hex'), max_cells=24 if big else 12,
                        max_cells_3d=8 if big else 4, order2=True, curved=False, sort_t_false=True))
    nc = len(desc['t'][0])
    tg = draw(gt.tags(nc))
    k = draw(st.sampled_from([1, 1, 1, 2] if gm.DIM[gm.mesh_kind(desc)] < 3 else [1, 1, 1, 1, 2]))
    if gm.DIM[gm.mesh_kind(desc)] == 3 and nc > 3 and k == 2:
        k = 1
    pre = draw(st.sampled_from(['none', 'none', 'refined', 'translated', 'mirrored', 'restrict', 'oriented', 'matmul_part',
                                'used_before', 'used_before']))
    return dict(mesh=desc, tags=tg, k=k, pre=pre, times=draw(st.sampled_from(['int', 'int', 'repeat'])))


def body(c, ctx):
    from ..cases import LogCapture, build_mesh, resolve_tags
    from ..oracle.refine import check_refinement
    desc = c['mesh']
    kind = gm.mesh_kind(desc)
    m = build_mesh(desc)
    pre = c['pre']
    if pre == 'refined' and m.nelements <= 6 and kind in ('line', 'tri', 'quad'):
        m = m.refined()
    elif pre == 'translated':
        m = m.translated(tuple([0.5] * m.dim()))
    elif pre == 'mirrored' and kind in ('tri', 'quad') and desc['cls'].endswith('1'):
        normal = (1.0, 0.0)
        m = m.mirrored(normal)
    elif pre == 'restrict' and m.nelements > 2:
        m = m.restrict(np.arange(m.nelements - 1))
    elif pre == 'matmul_part' and desc['cls'].endswith('1') and m.nelements <= 8:
        # one part of m @ n: its point array ends with the other part's points, which its own cells do not use
        m = (m @ m.translated(tuple([float(np.ptp(m.p[0])) + 1.0] + [0.0] * (m.dim() - 1))))[0]
    elif pre == 'used_before' and kind in ('line', 'tri', 'tet'):
        # the mesh object has served before: its tables were looked at, it was refined adaptively and oriented (results discarded)
        _ = m.facets, m.t2f, m.boundary_facets()
        if m.dim() == 3:
            _ = m.edges, m.t2e
        if desc['cls'].endswith('1'):
            m.refined(np.array([0, m.nelements - 1], dtype=np.int64))
        m.oriented()
    elif pre == 'oriented' and kind in ('tri', 'tet') and desc['cls'].endswith('1'):
        m = m.oriented()          # cells keep the local order the library chose, no longer ascending
    else:
        pre = 'none'
    mt, res = resolve_tags(m, c['tags'])
    k = c['k']
    if pre == 'mirrored':
        k = 1
    sig = dict(mesh=desc['cls'])
    ctx.cls(desc['cls'], f'k={k}', 'pre:' + pre, 'tags:' + ('sub' if res['subdomains'] else '') + ('bnd' if res['boundaries'] else ''))
    proper = any(0 < len(ix) < mt.nelements for ix in res['subdomains'].values()) or \
        any(0 < len(f) < mt.nfacets for f, _ in res['boundaries'].values())
    ctx.nt(proper or k >= 2 or pre != 'none')
    with LogCapture() as logs:
        try:
            if c['times'] == 'repeat':
                new = mt
                for _ in range(k):
                    new = new.refined()
            else:
                new = mt.refined(k)
        except NotImplementedError:
            raise Unsupported(f'{desc["cls"]}.refined not implemented')
    check_refinement(ctx, mt, res, new, logs, sig, uniform_k=k)
    if type(new) is not type(mt):
        ctx.fail('mesh_class_changed', f'{type(new).__name__}', **sig)
    # operand untouched
    if not np.array_equal(mt.p, m.p) or not np.array_equal(mt.t, m.t):
        ctx.fail('operand_modified', '', **sig)


def large_cases(tier):
    return [dict(cls='MeshTri', n=217), dict(cls='MeshQuad', n=217)] + ([dict(cls='MeshTri', n=301)] if tier == 'thorough' else [])


def body_large(c, ctx):
    """more than 2^15.5 vertices (products of two vertex numbers exceed int32): named sides and a named half after one uniform step,
    judged with vectorised predicates"""
    import skfem
    ctx.nt(True)
    ctx.cls('large:' + c['cls'])
    n = c['n']
    x = np.linspace(0.0, 1.0, n)
    sides = {'left': lambda p: p[0] == 0.0, 'right': lambda p: p[0] == 1.0, 'bottom': lambda p: p[1] == 0.0, 'top': lambda p: p[1] == 1.0}
    m = getattr(skfem, c['cls']).init_tensor(x, x).with_boundaries(dict(sides)).with_subdomains({'low': lambda p: p[1] < 0.5})
    r = m.refined()
    sig = dict(mesh=type(m).__name__, large=True)
    nl = 3 if c['cls'] == 'MeshTri' else 4
    if r.nelements != 4 * m.nelements or r.p.shape[1] != (2 * n - 1) ** 2:
        ctx.fail('cell_count', f'{r.nelements} cells, {r.p.shape[1]} vertices', **sig)
        return
    for name, pred in sides.items():
        got = np.sort(np.asarray(r.boundaries[name]).astype(np.int64))
        on = pred(r.p)
        want = np.nonzero(on[r.facets[0]] & on[r.facets[1]])[0]
        if not np.array_equal(got, want):
            ctx.fail('boundary_facets', f'{name}: {len(got)} named, {len(want)} on that side, {len(np.setdiff1d(got, want))} wrong', **sig)
            return
    cen = r.p[:, r.t[:nl]].mean(1)
    if not np.array_equal(np.sort(r.subdomains['low']), np.nonzero(cen[1] < 0.5)[0]):
        ctx.fail('subdomain_cells', 'low', **sig)


PROP = Prop(
    'C12', 'uniform refinement preserves domain, conformity and named regions',
    rule=('straight-sided meshes of all refinable classes (first and second order; Delaunay, tensor, split, holes, any '
          'numbering) x random subdomain/boundary tags (subsets, empty, full, interior facets) x k in {1,2} x a preceding '
          'operation (refined/translated/mirrored/restrict); the result is judged by a geometric validity predicate: '
          'cell count, no duplicate/unused vertices, positive measures, total and per-parent measure, boundary measure '
          '(no hanging nodes), nestedness via brute-force location of every child, vertex identity, and tags compared '
          'with the sets derived geometrically from the parent map / facet containment; dropped tags require a logged '
          'warning. Non-trivial: a tag that is a proper non-empty subset, or k>=2, or a preceding operation'),
    assumptions=['prisms have no uniform refinement (NotImplementedError): skipped and counted',
                 'boundary tags are judged geometrically in 1-D/2-D; 3-D classes drop them (warning required)',
                 'tolerances 1e-10 relative on measures, 1e-9 on containment'],
    subs=[Sub('uniform', body, strategy=case, quick=500, thorough=10000),
          Sub('large', body_large, cases=large_cases, max_shards=4)],
    design_ref='DESIGN.md section 6, C12')
PROP.rule += ('. Added in round 2: triangle meshes with sort_t=False and meshes returned by oriented().')
