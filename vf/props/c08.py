"""C08 -- quadrature rules deliver their advertised degree (finite, complete enumeration)."""
import functools
import itertools
from fractions import Fraction as Fr

from ..core import Prop, Sub
from ..oracle import polyq

# reference cell -> (integration kind, measure, highest order probed quick, thorough)
CELLS = {
    'RefPoint': ('point', Fr(1), 6, 6),
    'RefLine': ('box', Fr(1), 30, 60),
    'RefTri': ('simplex', Fr(1, 2), 24, 24),
    'RefTet': ('simplex', Fr(1, 6), 14, 14),
    'RefQuad': ('box', Fr(1), 12, 20),
    'RefHex': ('box', Fr(1), 7, 10),
    'RefWedge': ('wedge', Fr(1, 2), 9, 14),
}
TOL = 5e-13


@functools.lru_cache(maxsize=None)
def rule(name, n):
    import skfem.refdom as rd
    from skfem.quadrature import get_quadrature
    try:
        X, W = get_quadrature(getattr(rd, name), n)
    except Exception as e:  # documented behaviour outside the tables
        return None, type(e).__name__
    return X, W


def monomials(kind, d, n):
    if kind == 'simplex':
        return polyq.monomials_total(d, n)
    if kind == 'box':
        return polyq.monomials_tensor(d, n)
    if kind == 'wedge':
        return [e for e in itertools.product(range(n + 1), repeat=3) if e[0] + e[1] <= n]
    return [()]


def dim_of(name):
    return {'RefPoint': 0, 'RefLine': 1, 'RefTri': 2, 'RefQuad': 2, 'RefTet': 3, 'RefHex': 3, 'RefWedge': 3}[name]


def cases(tier):
    out = []
    for name, (kind, meas, nq, nth) in CELLS.items():
        nmax = nq if tier == 'quick' else nth
        d = dim_of(name)
        for n in range(-1, nmax + 1):
            out.append(dict(cell=name, order=n, mono=None))
            for e in monomials(kind, d, max(n, 0)):
                out.append(dict(cell=name, order=n, mono=list(e)))
    return out


def body(case, ctx):
    import numpy as np
    name, n, mono = case['cell'], case['order'], case['mono']
    kind, meas, _, _ = CELLS[name]
    d = dim_of(name)
    X, W = rule(name, n)
    if X is None:
        # raising is the documented answer outside the tables
        ctx.cls(f'{name}:raises')
        if mono is None:
            ctx.nt()
            # an order inside the advertised range must not raise: the library advertises no
            # range, so the only requirement is consistency: once an order raises, we do not
            # require anything more.
        return
    ctx.cls(f'{name}:rule')
    W = np.asarray(W, dtype=float)
    X = np.asarray(X, dtype=float)
    if mono is None:
        ctx.nt()
        # weights sum to measure; nodes in the closed cell
        ctx.close('weight_sum', W.sum(), float(meas), TOL, cell=name, _order=n)
        if d > 0:
            if X.shape != (d, W.shape[0]):
                ctx.fail('shape', f'order {n}: X {X.shape} W {W.shape}', cell=name)
                return
            eps = 1e-14
            inside = np.all(X >= -eps) and np.all(X <= 1 + eps)
            if kind == 'simplex':
                inside = inside and np.all(X.sum(0) <= 1 + eps)
            if kind == 'wedge':
                inside = inside and np.all(X[0] + X[1] <= 1 + eps)
            if not inside:
                ctx.fail('nodes_inside', f'order {n}: nodes outside closed cell: min {X.min()} max {X.max()}', cell=name)
        return
    if d == 0:
        return
    e = tuple(mono)
    deg = sum(e) if kind == 'simplex' else (max(e) if kind == 'box' else max(e[0] + e[1], e[2]))
    sharp = deg == max(n, 0)
    ctx.nt(sharp)
    exact = float(polyq.int_ref(polyq.Poly.monomial(e), kind))
    vals = np.ones_like(W)
    for k in range(d):
        if e[k]:
            vals = vals * X[k] ** e[k]
    got = float(np.sum(W * vals))
    ctx.close('exactness', got, exact, TOL, scale=max(abs(exact), 1e-300), cell=name, _order=n, _mono=mono)


def cases_repeat(tier):
    out = []
    for name, (kind, meas, nq, nth) in CELLS.items():
        for n in range(0, (nq if tier == 'quick' else nth) + 1):
            out.append(dict(cell=name, order=n))
    return out


def body_repeat(case, ctx):
    """every call returns the rule: also after a caller has rescaled, in place, the arrays an earlier call handed out
    (mapping a rule to another interval in place is an ordinary thing to do with one's own result)"""
    import numpy as np
    import skfem.refdom as rd
    from skfem.quadrature import get_quadrature
    name, n = case['cell'], case['order']

    def fetch(c_, k):
        try:
            X, W = get_quadrature(getattr(rd, c_), k)
        except Exception:
            return None
        return np.array(X, dtype=float, copy=True), np.array(W, dtype=float, copy=True)
    related = [(c_, k) for c_ in CELLS for k in (n - 1, n, n + 1) if k >= 0]
    before = {key: fetch(*key) for key in related}
    try:
        X, W = get_quadrature(getattr(rd, name), n)
    except Exception:
        ctx.cls(f'{name}:raises')
        return
    ctx.cls(f'{name}:rule')
    ctx.nt()
    for arr in (X, W):
        arr = np.asarray(arr)
        if isinstance(arr, np.ndarray) and arr.flags.writeable and arr.size:
            arr *= -2.0
            arr += 1.0
    for key in related:
        after = fetch(*key)
        b = before[key]
        if (after is None) != (b is None) or (b is not None and not (np.array_equal(after[0], b[0]) and np.array_equal(after[1], b[1]))):
            ctx.fail('rule_changed_by_earlier_caller', f'{key[0]} order {key[1]} differs after the caller of ({name}, {n}) rescaled '
                     f'its own result in place', cell=key[0], _order=key[1], _scribbled=[name, n])
            return


def cases_high(tier):
    orders = [64, 100, 150, 199, 200, 201, 256, 300] + ([400] if tier == 'thorough' else [])
    return [dict(cell='RefLine', order=n) for n in orders] + [dict(cell='RefQuad', order=n) for n in (64, 200)]


def body_high(case, ctx):
    """orders far above the monomial enumeration (x^200 cannot tell a rule of degree 199 from one of degree 200: the error is
    1e-120): shifted Legendre polynomials can.  For order n, with j + k = n:  int_0^1 P_j(2x-1) P_k(2x-1) dx = delta_jk / (2j+1),
    int P_n = 0."""
    import numpy as np
    from numpy.polynomial import legendre as L
    import skfem.refdom as rd
    from skfem.quadrature import get_quadrature
    name, n = case['cell'], case['order']
    X, W = get_quadrature(getattr(rd, name), n)
    X, W = np.asarray(X, dtype=float), np.asarray(W, dtype=float)
    ctx.nt()
    ctx.cls(f'{name}:high-order')
    sig = dict(cell=name, _order=n)
    ctx.close('weight_sum', W.sum(), 1.0, 1e-12, **sig)
    if X.min() < -1e-14 or X.max() > 1 + 1e-14:
        ctx.fail('nodes_inside', f'order {n}', cell=name)

    def P(k, x):
        return L.legval(2.0 * x - 1.0, [0.0] * k + [1.0])
    x = X[0]
    y = X[1] if X.shape[0] > 1 else None
    for j in sorted({n // 2, n // 2 - 1, 1, n - 1}):
        k = n - j
        if j < 0 or k < 0:
            continue
        vals = P(j, x) * P(k, x)
        if y is not None:
            vals = vals * P(j, y) * P(k, y)       # degree n in each direction
        want = (1.0 / (2 * j + 1) if j == k else 0.0) ** (1 if y is None else 2)
        got = float(np.sum(W * vals))
        if abs(got - want) > 1e-11:
            ctx.fail('exactness', f'order {n}: int P_{j} P_{k} = {got!r}, exact {want!r}', cell=name, high=True)
            return
    got = float(np.sum(W * (P(n, x) if y is None else P(n, x) * P(n, y))))
    if abs(got) > 1e-11:
        ctx.fail('exactness', f'order {n}: int P_{n} = {got!r}, exact 0', cell=name, high=True)


PROP = Prop(
    'C08', 'quadrature rules deliver their advertised degree',
    rule=('complete enumeration of (reference cell, order n from -1 up to the probed maximum, monomial) triples: '
          'all monomials of total degree <= n on simplices (and the triangle part of the prism), degree <= n per '
          'direction on tensor directions; a triple is non-trivial when the monomial has degree exactly n (sharp) '
          'or it is the per-rule weight-sum/nodes-inside/raises check; distinct = distinct triples'),
    assumptions=['exact rational reference integrals (Fractions) compared at 5e-13 relative',
                 'any exception for an order counts as "raises" (the property does not fix the type)',
                 'Gauss-Legendre based cells accept every order; they are probed up to the stated maximum only'],
    subs=[Sub('rules', body, cases=cases, max_shards=16), Sub('repeat_calls', body_repeat, cases=cases_repeat, max_shards=8),
          Sub('high_orders', body_high, cases=cases_high, max_shards=8)],
    design_ref='DESIGN.md section 6, C08')
PROP.rule += ('. Added in round 2 (sub-check repeat_calls): every (cell, order) and its neighbours (all cells, orders n-1, n, n+1) are requested, the caller rescales the arrays of one result in place, and everything is requested again: bit-identical results required.')
