"""C14 -- point location and point evaluation of discrete functions are exact."""
import numpy as np
from hypothesis import strategies as st

from ..core import Prop, Reject, Sub, Unsupported
from ..gen import elements as ge
from ..gen import meshes as gm

VALS = np.array([1.0, -1.0, 0.5, -2.0, 3.0, 0.25, 1.5])
PCLASS = ['interior', 'interior', 'vertex', 'facet', 'boundary', 'edge', 'outside', 'near_facet', 'barely_outside']


@st.composite
def mesh_for_points(draw, tier, max_cells=24, max3=10):
    # convex cells, first order; hexahedra/prisms with planar faces (their finders split into tetrahedra)
    kind = draw(st.sampled_from(['line', 'tri', 'tri', 'quad', 'tet', 'hex', 'wedge']))
    # a third of the meshes are plain structured grids with dyadic coordinates (what most users have): reference coordinates of
    # facet and vertex points are then recovered EXACTLY (0.0 / 1.0), which is where equality-keyed per-point tables collide
    plain = dict(allow_affine=False, allow_jiggle=False, renum=False, local=False, bases=['tensor']) if draw(st.integers(0, 2)) == 0 else {}
    if kind in ('hex', 'wedge'):
        return draw(gm.mesh(kinds=(kind,), max_cells_3d=max3, **dict(dict(allow_jiggle=False), **plain)))
    return draw(gm.mesh(kinds=(kind,), max_cells=max_cells, max_cells_3d=max3, **plain))


@st.composite
def case_locate(draw, tier):
    desc = draw(mesh_for_points(tier))
    pts = draw(st.lists(st.tuples(st.sampled_from(PCLASS), st.integers(0, 10**4), st.integers(0, 10**4)), min_size=1, max_size=12))
    return dict(mesh=desc, pts=[list(p) for p in pts], repeat=draw(st.booleans()))


def ref_point(kind, pclass, k1, k2):
    """a reference point of the requested class (dyadic coordinates)"""
    from ..oracle import fd
    from skfem import refdom as rd
    R = {'line': rd.RefLine, 'tri': rd.RefTri, 'tet': rd.RefTet, 'quad': rd.RefQuad, 'hex': rd.RefHex, 'wedge': rd.RefWedge}[kind]
    V = R.p
    if pclass == 'interior':
        lat = fd.lattice(kind, 3)
        return lat[:, k1 % lat.shape[1]]
    if pclass == 'vertex':
        return V[:, k1 % V.shape[1]].astype(float)
    if pclass in ('facet', 'boundary'):
        fs = [list(dict.fromkeys(f)) for f in R.facets]
        f = fs[k1 % len(fs)]
        W = V[:, f].astype(float)
        if len(f) == 1:
            return W[:, 0]
        # dyadic convex combination strictly inside the facet
        wts = {2: [[0.5, 0.5], [0.25, 0.75], [0.875, 0.125]],
               3: [[0.5, 0.25, 0.25], [0.125, 0.125, 0.75], [0.25, 0.5, 0.25]],
               4: [[0.25, 0.25, 0.25, 0.25], [0.5, 0.125, 0.125, 0.25], [0.125, 0.25, 0.5, 0.125]]}[len(f)]
        w = np.array(wts[k2 % 3])
        if len(f) == 4:
            # bilinear weights of a point of the (planar) quadrilateral face: product form keeps it on the face
            s, t = [0.25, 0.5, 0.75][k2 % 3], [0.5, 0.25, 0.625][(k2 // 3) % 3]
            w = np.array([(1 - s) * (1 - t), s * (1 - t), s * t, (1 - s) * t])
        return W @ w
    if pclass == 'edge' and kind == 'line':
        return V[:, k1 % V.shape[1]].astype(float)
    if pclass == 'edge':
        es = R.edges if R.edges else [list(dict.fromkeys(f)) for f in R.facets]
        e = es[k1 % len(es)]
        W = V[:, e[:2]].astype(float)
        s = [0.5, 0.25, 0.875][k2 % 3]
        return W[:, 0] * (1 - s) + W[:, 1] * s
    raise ValueError(pclass)


def make_points(m, kind, pts):
    """-> list of (class, x, cell used for construction or None)"""
    from ..oracle import geom, maps
    T = geom.topo(m)
    out = []
    lo, hi = m.p.min(1), m.p.max(1)
    span = (hi - lo).max()
    bcells = sorted({T.facet_cells[k][0] for k in T.boundary_facets})
    for pclass, k1, k2 in pts:
        if pclass == 'outside':
            mode = k1 % 3
            if mode == 0:
                x = hi + span * np.array([0.25, 0.5, 0.125][:m.dim()]) * (1 + k2 % 3)
            elif mode == 1:
                x = lo - span * np.array([0.5, 0.125, 0.25][:m.dim()]) * (1 + k2 % 3)
            else:
                # just outside a boundary facet: reflect a cell's centroid across the facet's centroid
                c = bcells[k2 % len(bcells)]
                key = next(k for k in T.cell_facets[c] if k in T.boundary_facets)
                fc = m.p[:, sorted(key)].mean(1)
                cc = m.p[:, list(T.cells[c])].mean(1)
                x = fc + 0.25 * (fc - cc)
            if geom.locate(m, x, tol=1e-6):
                continue            # lies in another part of a non-convex domain: not an outside point
            out.append(('outside', x, None))
            continue
        if pclass in ('near_facet', 'barely_outside'):
            # a hair (2^-24 of the cell, far above rounding, far below any sensible tolerance) off a face: inside one cell only /
            # outside the domain.  Simplicial meshes (no internal split faces).
            if kind not in ('tri', 'tet'):
                continue
            if pclass == 'near_facet':
                inner = [(c, s) for c in range(m.nelements) for s, k in enumerate(T.cell_facets[c]) if len(T.facet_cells[k]) == 2]
                if not inner:
                    continue
                c, s = inner[k1 % len(inner)]
            else:
                c = bcells[k1 % len(bcells)]
                slots = [s_ for s_, k in enumerate(T.cell_facets[c]) if k in T.boundary_facets]
                s = slots[k2 % len(slots)]
            P = m.p[:, m.t[:, c]]
            xf = maps.F1(kind, P, ref_point(kind, 'facet', s, k2)[:, None])[:, 0]
            cc = P.mean(1)
            if pclass == 'near_facet':
                out.append(('near_facet', xf + 2.0 ** -24 * (cc - xf), c))
            else:
                x = xf - 2.0 ** -24 * (cc - xf)
                if not geom.locate(m, x, tol=1e-12):
                    out.append(('outside', x, None))
            continue
        if pclass == 'boundary':
            c = bcells[k1 % len(bcells)]
            slots = [s for s, k in enumerate(T.cell_facets[c]) if k in T.boundary_facets]
            X = ref_point(kind, 'facet', slots[k2 % len(slots)], k2)
        elif pclass == 'facet':
            inner = [(c, s) for c in range(m.nelements) for s, k in enumerate(T.cell_facets[c]) if len(T.facet_cells[k]) == 2]
            if not inner:
                continue
            c, s = inner[k1 % len(inner)]
            X = ref_point(kind, 'facet', s, k2)
        else:
            c = k1 % m.nelements
            X = ref_point(kind, pclass, k2, k1 // 7)
        x = maps.F1(kind, m.p[:, m.t[:, c]], X[:, None])[:, 0]
        out.append((pclass, x, c))
    return out


def contains(m, kind, cell, x, tol=1e-9):
    from ..oracle import maps
    X = maps.invF1(kind, m.p[:, m.t[:, cell]], x[:, None])
    return bool(maps.inside_ref(kind, X, tol=tol)[0]), X[:, 0]


def body_locate(c, ctx):
    from ..cases import build_mesh
    desc = c['mesh']
    kind = gm.mesh_kind(desc)
    m = build_mesh(desc)
    pts = make_points(m, kind, c['pts'])
    if not pts:
        raise Reject()
    translated = 'affine' in desc['feat']
    ctx.cls(desc['cls'], *sorted({p[0] for p in pts}), 'translated' if translated else 'origin')
    ctx.nt(any(p[0] != 'interior' for p in pts))
    finder = m.element_finder()
    inside = [p for p in pts if p[0] != 'outside']
    outside = [p for p in pts if p[0] == 'outside']
    # quadrilaterals, hexahedra and prisms are located through a split into simplices: points interior to a cell can lie on the
    # internal faces of the split, where the simplex finders' tolerance (the known finding) applies as on cell boundaries
    sig = dict(mesh=desc['cls'], split_cells=kind in ('quad', 'hex', 'wedge'))
    # one call per point class (a rejected point would otherwise hide the others), then all of them at once
    for pclass in sorted({p[0] for p in inside}):
        P = [p for p in inside if p[0] == pclass]
        if c['repeat']:
            P = P + P[::-1]
        x = np.array([p[1] for p in P]).T
        try:
            cells = np.asarray(finder(*x))
        except (ValueError, IndexError) as e:
            ctx.fail('domain_point_rejected', f'{pclass} point(s) of the meshed domain raise {type(e).__name__}: {e} | '
                     f'points {x.T.tolist()[:3]}', pclass=pclass, **sig)
            continue
        if cells.shape != (x.shape[1],):
            ctx.fail('finder_shape', f'{cells.shape} for {x.shape[1]} points', **sig)
            continue
        for j, p in enumerate(P):
            ok, X = contains(m, kind, int(cells[j]), p[1])
            if not ok:
                ctx.fail('located_cell_does_not_contain_point', f'{pclass} point {p[1].tolist()} -> cell {int(cells[j])}, reference '
                         f'coordinates {X.tolist()}', pclass=pclass, **sig)
                break
    # every point of the domain once more on its own (the candidate search then sees one point's neighbourhood only)
    if not ctx.failures:
        for p in inside[:8]:
            try:
                cell = np.asarray(finder(*p[1][:, None]))
            except (ValueError, IndexError) as e:
                ctx.fail('domain_point_rejected', f'{p[0]} point {p[1].tolist()} of the meshed domain, accepted in a batch, raises alone: '
                         f'{type(e).__name__}: {e}', pclass=p[0], single=True, **sig)
                break
            if cell.shape != (1,) or not contains(m, kind, int(cell[0]), p[1])[0]:
                ctx.fail('located_cell_does_not_contain_point', f'{p[0]} point {p[1].tolist()} asked alone -> {cell.tolist()}',
                         pclass=p[0], **sig)
                break
    for p in outside:
        try:
            cells = finder(*p[1][:, None])
        except Exception:
            continue
        ctx.fail('outside_point_accepted', f'point {p[1].tolist()} outside the mesh returned cell {np.asarray(cells).tolist()} instead '
                 f'of raising', **sig)
        break
    if inside and not ctx.failures:
        x = np.array([p[1] for p in inside]).T
        try:
            cells = np.asarray(finder(*x))
        except (ValueError, IndexError) as e:
            # every class was accepted on its own: in the batch another search path (other array shapes, other rounding) rejects one
            ctx.fail('domain_point_rejected', f'batch of {len(inside)} points of the meshed domain, each class accepted on its own, '
                     f'raises {type(e).__name__}: {e}', pclass='batch', **sig)
            return
        for j, p in enumerate(inside):
            if not contains(m, kind, int(cells[j]), p[1])[0]:
                ctx.fail('located_cell_does_not_contain_point', f'batch of {len(inside)} points: point {j}', pclass='batch', **sig)
                break


# ------------------------------------------------------------------------------ evaluation
@st.composite
def case_eval(draw, tier):
    desc = draw(mesh_for_points(tier, max_cells=12, max3=5))
    kind = gm.mesh_kind(desc)
    k = draw(st.integers(0, 9))
    base = draw(ge.simple(kind, pred=lambda e: not e['family'].startswith('global') and e['family'] != 'skeleton',
                          exclude=('ElementTriN3',)))
    if kind in ('line', 'quad') and draw(st.integers(0, 2)) == 0:
        # the two element classes that keep per-point tables on the instance (the property names per-point caches)
        base = {'cls': 'ElementLinePp' if kind == 'line' else 'ElementQuadP', 'p': draw(st.integers(2, 4))}
    if k == 6 and ge.R[base['cls']]['scalar']:
        el = {'cls': 'ElementVector', 'of': base}
    elif k == 7 and ge.R[base['cls']]['scalar']:
        el = {'cls': 'ElementVector', 'of': {'cls': 'ElementVector', 'of': base}}
    elif k == 8:
        el = {'cls': 'ElementDG', 'of': base}
    else:
        el = base
    pts = draw(st.lists(st.tuples(st.sampled_from(['interior', 'interior', 'interior', 'facet', 'vertex', 'boundary']),
                                  st.integers(0, 10**4), st.integers(0, 10**4)), min_size=1, max_size=8))
    return dict(mesh=desc, elem=el, pts=[list(p) for p in pts], seed=draw(st.integers(0, 10**6)), repeat=draw(st.booleans()))


def continuous(eld):
    d = eld
    while d['cls'] == 'ElementVector':
        d = d['of']
    if d['cls'] == 'ElementDG':
        return False
    return ge.R[d['cls']]['family'] == 'h1'


def body_eval(c, ctx):
    from skfem import CellBasis
    from ..cases import build_element, build_mesh
    desc = c['mesh']
    kind = gm.mesh_kind(desc)
    m = build_mesh(desc)
    eld = c['elem']
    lab = ge.label(eld)
    pts = [p for p in make_points(m, kind, c['pts']) if p[0] != 'outside']
    cont = continuous(eld)
    if not cont:
        pts = [p for p in pts if p[0] == 'interior']        # one-sided values are ambiguous on facets
    if not pts:
        raise Reject()
    if c['repeat']:
        pts = pts + pts[:2]
    io = 2
    basis = CellBasis(m, build_element(eld), intorder=io)
    rng = np.random.RandomState(c['seed'])
    u = VALS[rng.randint(0, len(VALS), basis.N)]
    x = np.array([p[1] for p in pts]).T
    tensor = 0
    d_ = eld
    while d_['cls'] == 'ElementVector':
        tensor += 1
        d_ = d_['of']
    base = d_['of'] if d_['cls'] == 'ElementDG' else d_
    tensor += ge.R[base['cls']]['tensor']
    sig = dict(tensor=tensor, dg=not cont)
    ctx.cls(desc['cls'], f'tensor={tensor}', 'continuous' if cont else 'discontinuous', *sorted({p[0] for p in pts}))
    ctx.nt(any(p[0] != 'interior' for p in pts) or tensor >= 1)
    try:
        Pm = basis.probes(x)
    except ValueError as e:
        if 'outside' in str(e):
            # the finder's own tolerance: judged (and recorded) by the locate sub-check
            raise Reject()
        raise
    got = np.asarray(Pm @ u)
    # independent evaluation: brute-force located cell, independently inverted reference point, shared-points gbasis path
    finder = m.element_finder()
    try:
        cells = np.asarray(finder(*x))
    except ValueError as e:
        if 'outside' in str(e):
            raise Reject()      # a second, fresh finder rejects what the basis' own accepted (rounding): judged by the locate sub-check
        raise
    mapping = m.mapping()
    want = []
    for j, p in enumerate(pts):
        cell = int(cells[j]) if not cont else (p[2] if p[2] is not None else int(cells[j]))
        ok, X = contains(m, kind, cell, p[1])
        if not ok:
            cell = int(cells[j])
            ok, X = contains(m, kind, cell, p[1])
        val = 0.0
        for i in range(basis.Nbfun):
            g = build_element(eld).gbasis(mapping, X[:, None].copy(), i, tind=np.array([cell], dtype=np.int32))[0]
            val = val + u[basis.element_dofs[i, cell]] * np.asarray(g.value)[..., 0, 0]
        want.append(np.asarray(val))
    want = np.array(want)                      # (npts, lead...)
    comp = int(np.prod(want.shape[1:])) if want.ndim > 1 else 1
    wflat = np.moveaxis(want, 0, -1).reshape(comp * len(pts)) if want.ndim > 1 else want
    mag = 1.0 + np.abs(wflat).max()
    if got.shape != wflat.shape:
        ctx.fail('probes_shape', f'{got.shape} vs {wflat.shape} | {lab}', **sig)
        return
    if not np.allclose(got, wflat, rtol=0, atol=1e-9 * mag):
        ctx.fail('probes_value', f'{lab}: probes(x) @ u differs from the located cell\'s local expansion by {np.abs(got - wflat).max():.3e}', **sig)
        return
    f = basis.interpolator(u)
    gi_ = np.asarray(f(x))
    wshape = np.moveaxis(want, 0, -1) if want.ndim > 1 else want
    if gi_.shape != wshape.shape or not np.allclose(gi_, wshape, rtol=0, atol=1e-9 * mag):
        ctx.fail('interpolator_value', f'{lab}: interpolator(u)(x) has shape {gi_.shape}, expected {wshape.shape}; '
                 f'max diff {np.abs(gi_ - wshape).max() if gi_.shape == wshape.shape else "-"}', **sig)
    # one point after the other: the same numbers
    f2 = basis.interpolator(u)
    # (every point, each asked twice in a row, then the sequence backwards: what was evaluated before must not matter)
    npt = len(pts)
    for j in [q for k_ in range(npt) for q in (k_, k_)] + list(range(npt))[::-1]:
        try:
            one = np.asarray(f2(x[:, j:j + 1]))
        except ValueError as e:
            if 'outside' in str(e):
                continue        # accepted in the batch, rejected alone (rounding at the finder's tolerance): locate sub-check
            raise
        ref = wshape[..., j:j + 1]
        if one.shape != ref.shape or not np.allclose(one, ref, rtol=0, atol=1e-9 * mag):
            ctx.fail('interpolator_single_points', f'{lab}: evaluating point {j} on its own gives {one.ravel()[:4]}, expected {ref.ravel()[:4]}', **sig)
            break
    # the caller moves its points IN PLACE (x[:] = ...) and asks again with the same array object: the answer is for the new points
    if x.shape[1] >= 2 and not np.array_equal(x, x[:, ::-1]):
        xm = x.copy()
        f3 = basis.interpolator(u)
        try:
            f3(xm), basis.probes(xm)
            xm[:] = xm[:, ::-1].copy()
            v_obj = np.asarray(f3(xm))
            P_obj = basis.probes(xm)
            v_new = np.asarray(basis.interpolator(u)(xm.copy()))
            if v_obj.shape != v_new.shape or not np.allclose(v_obj, v_new, rtol=0, atol=1e-9 * mag) or \
                    not np.allclose(np.asarray(P_obj @ u), np.asarray(basis.probes(xm.copy()) @ u), rtol=0, atol=1e-9 * mag):
                ctx.fail('points_moved_in_place', f'{lab}: the same array object with new contents gives the values of the old points', **sig)
        except ValueError as e:
            if 'outside' not in str(e):
                raise
    # point source: inner product of a Dirac delta with the test functions
    if tensor == 0:
        try:
            b = basis.point_source(x[:, 0])
        except ValueError as e:
            if 'outside' not in str(e):
                raise
            b = None
    if tensor == 0 and b is not None:
        if b.shape != (basis.N,) or abs(b @ u - wflat[0]) > 1e-9 * mag:
            ctx.fail('point_source', f'{lab}: point_source(x) . u = {b @ u if b.shape == (basis.N,) else b.shape} vs {wflat[0]}', **sig)
    # the interpolator applied to the quadrature points agrees with interpolation of the coefficient vector
    xq = np.asarray(basis.global_coordinates().value)            # (dim, ncells, nqp)
    uh = np.asarray(basis.interpolate(u).value)                   # (lead..., ncells, nqp)
    flat = xq.reshape(xq.shape[0], -1)
    try:
        vq = np.asarray(basis.interpolator(u)(flat))
    except ValueError as e:
        if 'outside' in str(e):
            vq = None
        else:
            raise
    if vq is not None:
        wq = uh.reshape(uh.shape[:-2] + (-1,))
        mq = 1.0 + np.abs(wq).max()
        tolq = 1e-8 * mq if cont else None
        if vq.shape != wq.shape:
            ctx.fail('quadrature_agreement_shape', f'{vq.shape} vs {wq.shape}', **sig)
        elif not np.allclose(vq, wq, rtol=0, atol=1e-8 * mq):
            ctx.fail('quadrature_agreement', f'{lab}: interpolator at the quadrature points differs from interpolate(u) by '
                     f'{np.abs(vq - wq).max():.3e}', **sig)
        # documented trailing-axes form
        try:
            vt = np.asarray(basis.interpolator(u)(xq))
        except ValueError as e:
            if 'outside' in str(e):
                vt = None
            else:
                ctx.fail('interpolator_trailing_axes', f'{lab}: points of shape {xq.shape} raise ValueError: {e}', **sig)
                vt = None
        if vt is not None and (vt.shape != uh.shape or not np.allclose(vt, uh, rtol=0, atol=1e-8 * mq)):
            ctx.fail('interpolator_trailing_axes', f'{lab}: result shape {vt.shape}, interpolate(u) has {uh.shape}', **sig)
        # the same points held in other memory layouts (Fortran order, e.g. a transposed points-by-coordinates table; a strided view)
        if vt is not None and not ctx.failures:
            for label, xalt in (('fortran', np.asfortranarray(xq)), ('strided', np.repeat(xq, 2, axis=-1)[..., ::2])):
                try:
                    va = np.asarray(basis.interpolator(u)(xalt))
                except ValueError as e:
                    if 'outside' in str(e):
                        continue
                    raise
                if va.shape != vt.shape or not np.allclose(va, vt, rtol=0, atol=1e-9 * mq):
                    ctx.fail('interpolator_memory_layout', f'{lab}: the same query points as a {label} array give values differing by '
                             f'{np.abs(va - vt).max() if va.shape == vt.shape else "shape"}', **sig)
                    break


PROP = Prop(
    'C14', 'point location and point evaluation of discrete functions are exact',
    rule=('generated first-order meshes with convex cells of all cell types (graded, translated/scaled, non-convex domains, holes; '
          'planar-faced hexahedra and prisms) x query points by class -- strictly interior lattice points, vertices, dyadic points '
          'on interior facets, on the domain boundary and on edges, points outside the hull and just outside boundary facets -- in '
          'any number, order and repetition: the returned cell must contain the point (independent inverse map, 1e-9), domain '
          'points must not raise, outside points must raise; probes(x) @ u, interpolator(u)(x) (batch and point by point) and '
          'point_source(x) . u == the local expansion evaluated through the shared-points gbasis path at independently inverted '
          'reference coordinates, for scalar, vector, tensor, DG, H(div), H(curl) elements; interpolator at the quadrature points '
          '(flattened and in the trailing-axes form) == interpolate(u). Non-trivial: a point that is not strictly interior, or a '
          'vector/tensor-valued element'),
    assumptions=['one-sided values of discontinuous fields are only compared at strictly interior points',
                 'general trilinear hexahedra with non-planar faces are excluded (the tetrahedral split of the finder does not tile them)',
                 'ElementComposite raises NotImplementedError in probes by design; ElementGlobal/skeleton elements excluded',
                 'any exception type counts as "raises" for outside points'],
    subs=[Sub('locate', body_locate, strategy=case_locate, quick=3000, thorough=60000),
          Sub('evaluate', body_eval, strategy=case_eval, quick=1200, thorough=30000)],
    design_ref='DESIGN.md section 6, C14')
PROP.rule += ('. Added in round 2: every query point is also evaluated on its own twice in a row and the sequence once more backwards.')
