"""Brute-force topology recomputed from the cell list with Python sets (no skfem tables).

Only the reference-cell *conventions* (which local vertices span local facet/edge k) are
taken from skfem.refdom; everything else is recomputed here.
"""
import itertools


def refdom_of(m):
    return m.elem.refdom


def local_facets(m):
    rd = refdom_of(m)
    return [list(dict.fromkeys(f)) for f in rd.facets]   # wedge triangles repeat a vertex


def local_edges(m):
    rd = refdom_of(m)
    return [list(e) for e in (rd.edges or [])]


class Topo:
    def __init__(self, t, lfacets, ledges):
        """t: nlocal x ncells integer array (vertex rows only)"""
        self.nc = t.shape[1]
        self.cells = [tuple(int(v) for v in t[:, c]) for c in range(self.nc)]
        self.lfacets = lfacets
        self.ledges = ledges
        self.facet_cells = {}     # frozenset(vertices) -> [cells]
        self.edge_cells = {}
        self.cell_facets = []     # per cell, per slot: frozenset
        self.cell_edges = []
        for c, vs in enumerate(self.cells):
            fs = []
            for loc in lfacets:
                key = frozenset(vs[i] for i in loc)
                self.facet_cells.setdefault(key, []).append(c)
                fs.append(key)
            self.cell_facets.append(fs)
            es = []
            for loc in ledges:
                key = frozenset(vs[i] for i in loc)
                self.edge_cells.setdefault(key, []).append(c)
                es.append(key)
            self.cell_edges.append(es)
        self.vertices = sorted(set(v for vs in self.cells for v in vs))
        self.boundary_facets = {k for k, cs in self.facet_cells.items() if len(cs) == 1}
        self.boundary_vertices = set(v for k in self.boundary_facets for v in k)
        # edges of a facet: the cell edges whose vertex set is contained in the facet
        self.boundary_edges = {e for e in self.edge_cells if any(e <= f for f in self.boundary_facets)}

    def facet_edges(self, fkey):
        return {e for e in self.edge_cells if e <= fkey}

    def vertex_cells(self):
        out = {}
        for c, vs in enumerate(self.cells):
            for v in vs:
                out.setdefault(v, set()).add(c)
        return out


def topo_of_mesh(m):
    nl = refdom_of(m).nnodes
    return Topo(m.t[:nl], local_facets(m), local_edges(m))
