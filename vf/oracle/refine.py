"""Validity predicate for a refined mesh against its parent (shared by C12, C13)."""
import numpy as np

from . import geom


def check_refinement(ctx, old, res, new, logs, sig, uniform_k=None, marked=None, supports_boundaries=True):
    """old: tagged parent mesh; res: resolved tags of old; new: result; logs: LogCapture.
    uniform_k: number of uniform refinements (cell count 2^(d k) n) or None for adaptive;
    marked: iterable of marked parent cells (adaptive)."""
    d = old.dim()
    nv_old = old.nvertices
    vol_old = geom.cell_measures(old)
    # points of the operand that none of its cells uses (parts of m @ n, files with spare nodes) may stay unused in the result
    spare = int(old.p.shape[1] - len(np.unique(old.t[:geom.nlocal(old)])))
    vol_new, Tn = geom.basic_validity(ctx, new, sig, ref_scale=vol_old.max(), allow_unused=spare)
    if any(w in ('unused_vertices',) for w in [f[0]['what'] for f in ctx.failures]):
        return None
    if abs(vol_new.sum() - vol_old.sum()) > 1e-10 * vol_old.sum():
        ctx.fail('total_measure', f'{vol_new.sum()!r} vs {vol_old.sum()!r}', **sig)
    if uniform_k is not None and new.nelements != 2 ** (d * uniform_k) * old.nelements:
        ctx.fail('cell_count', f'{new.nelements} vs {2 ** (d * uniform_k) * old.nelements}', **sig)
    bm_old, nb_old, planar = geom.boundary_measure(old, with_info=True)
    bm_new, nb_new, _ = geom.boundary_measure(new, Tn, with_info=True)
    if planar and abs(bm_new - bm_old) > 1e-10 * bm_old:
        ctx.fail('boundary_measure', f'{bm_new!r} vs {bm_old!r} (hanging node or gap)', **sig)
    if uniform_k is not None and nb_new != nb_old * 2 ** ((d - 1) * uniform_k):
        ctx.fail('boundary_facet_count', f'{nb_new} one-neighbour facets, expected {nb_old * 2 ** ((d - 1) * uniform_k)} '
                 '(hanging node or gap)', **sig)
    if new.p.shape[1] < nv_old or not np.array_equal(new.p[:, :nv_old], old.p[:, :nv_old]):
        ctx.fail('old_vertices_moved', 'the original vertices do not keep index and position', **sig)
    parent = geom.parent_map(old, new)
    if parent.min() < 0:
        ctx.fail('not_nested', f'{int((parent < 0).sum())} new cells lie in no single old cell', **sig)
        return None
    counts = np.bincount(parent, minlength=old.nelements)
    if uniform_k is not None:
        if not np.all(counts == 2 ** (d * uniform_k)):
            ctx.fail('children_per_parent', f'{counts.tolist()[:10]}', **sig)
    else:
        if counts.min() < 1:
            ctx.fail('parent_without_child', '', **sig)
        for k in (marked if marked is not None else []):
            if counts[int(k)] < 2:
                ctx.fail('marked_not_split', f'marked cell {int(k)} has {counts[int(k)]} child', **sig)
                break
    # per-parent measure conservation (children tile the parent)
    sums = np.bincount(parent, weights=vol_new, minlength=old.nelements)
    if not np.allclose(sums, vol_old, rtol=1e-9, atol=1e-13 * vol_old.max()):
        ctx.fail('children_do_not_tile_parent', '', **sig)
    # ------------------------------------------------------------------ subdomains
    osub = res['subdomains']
    if osub:
        ns = new.subdomains
        if ns is None:
            if not logs.has('subdomains'):
                ctx.fail('subdomains_dropped_silently', 'no warning logged', **sig)
        else:
            if set(ns) != set(osub):
                ctx.fail('subdomain_names', f'{sorted(ns)} vs {sorted(osub)}', **sig)
            else:
                for name, ix in osub.items():
                    exp = set(np.nonzero(np.isin(parent, ix))[0].tolist())
                    got = np.asarray(ns[name]).astype(np.int64)
                    gs = set(got.tolist())
                    if gs != exp:
                        ctx.fail('subdomain_cells', f'{name}: {len(exp - gs)} cells missing, {len(gs - exp)} wrong '
                                 f'(of {len(exp)})', **sig)
                        break
    elif new.subdomains:
        ctx.fail('subdomains_invented', '', **sig)
    # ------------------------------------------------------------------ boundaries
    obnd = res['boundaries']
    if obnd:
        nb = new.boundaries
        if nb is None:
            if not logs.has('boundaries'):
                ctx.fail('boundaries_dropped_silently', 'no warning logged', **sig)
        elif d <= 2:
            if set(nb) != set(obnd):
                ctx.fail('boundary_names', f'{sorted(nb)} vs {sorted(obnd)}', **sig)
            else:
                h = np.sqrt(vol_old.max()) if d == 2 else vol_old.max()
                for name, (fix, ori) in obnd.items():
                    exp = set()
                    segs = [old.p[:, old.facets[:, f]] for f in fix]
                    for f in range(new.facets.shape[1]):
                        P = new.p[:, new.facets[:, f]]
                        for Q in segs:
                            if d == 1:
                                hit = np.allclose(P[:, 0], Q[:, 0], rtol=0, atol=1e-12 * (1 + abs(Q[0, 0])))
                            else:
                                hit = all(geom.point_on_segment(P[:, i], Q[:, 0], Q[:, 1], 1e-9) for i in range(2))
                            if hit:
                                exp.add(f)
                                break
                    got = set(np.asarray(nb[name]).astype(np.int64).tolist())
                    if got != exp:
                        ctx.fail('boundary_facets', f'{name}: {len(exp - got)} facets missing, {len(got - exp)} wrong '
                                 f'(of {len(exp)})', **sig)
                        break
        else:
            # 3-D: the mesh classes drop boundaries (with a warning); whatever IS kept under a name must be right: the new facets
            # under the name are exactly the facets lying inside the old facets of that name (planar faces only)
            scale = 1.0 + np.abs(old.p).max()

            def in_face(x, Q):
                n = np.cross(Q[:, 1] - Q[:, 0], Q[:, 2] - Q[:, 0])
                nn = np.linalg.norm(n)
                if abs(n @ (x - Q[:, 0])) > 1e-9 * nn * scale:
                    return False
                k = Q.shape[1]
                return all(np.cross(Q[:, (i + 1) % k] - Q[:, i], x - Q[:, i]) @ n >= -1e-9 * nn * nn for i in range(k))

            def planar(Q):
                if Q.shape[1] == 3:
                    return True
                n = np.cross(Q[:, 1] - Q[:, 0], Q[:, 2] - Q[:, 0])
                return abs(n @ (Q[:, 3] - Q[:, 0])) <= 1e-9 * np.linalg.norm(n) * scale
            for name, (fix, ori) in obnd.items():
                if name not in nb:
                    ctx.fail('boundary_names', name, **sig)
                    break
                faces = [old.p[:, old.facets[:, f]] for f in fix]
                if not all(planar(Q) for Q in faces):
                    continue
                exp = {f for f in range(new.facets.shape[1])
                       if any(all(in_face(new.p[:, v], Q) for v in new.facets[:, f]) for Q in faces)}
                got = set(np.asarray(nb[name]).astype(np.int64).tolist())
                if got != exp:
                    ctx.fail('boundary_facets', f'{name}: {len(exp - got)} facets missing, {len(got - exp)} wrong (of {len(exp)})', **sig)
                    break
    elif new.boundaries:
        ctx.fail('boundaries_invented', '', **sig)
    return parent
