"""Central finite-difference stencils that are EXACT on polynomials of degree <= 8 (first
derivative, 9 points).  With a dyadic step the only error is rounding, so "derivative of the
delivered value field" is decided from values alone, without trusting any derivative code."""
from fractions import Fraction as Fr

import numpy as np

# order-8 central stencil for f'(0): sum_k C1[k] * f(k h) / h, k = -4..4
C1 = [Fr(1, 280), Fr(-4, 105), Fr(1, 5), Fr(-4, 5), Fr(0), Fr(4, 5), Fr(-1, 5), Fr(4, 105), Fr(-1, 280)]
C1F = [float(c) for c in C1]
OFFS = list(range(-4, 5))


def d_dX(fun, X, a, h):
    """derivative of fun(X) (array valued, any shape, last axis = points or not) w.r.t.
    reference coordinate a; X: (dim, npts) or (dim, ncells, npts)"""
    out = 0.0
    for k, c in zip(OFFS, C1F):
        if c == 0.0:
            continue
        Y = X.copy()
        Y[a] = Y[a] + k * h
        out = out + c * np.asarray(fun(Y))
    return out / h


def lattice(kind, n, interior=True):
    """dyadic lattice points of the reference cell (strictly inside when interior)"""
    import itertools
    d = {'line': 1, 'tri': 2, 'quad': 2, 'tet': 3, 'hex': 3, 'wedge': 3}[kind]
    N = 2 ** n
    pts = []
    rng = range(1, N) if interior else range(0, N + 1)
    for idx in itertools.product(rng, repeat=d):
        x = [i / N for i in idx]
        if kind in ('tri', 'tet') and sum(idx) >= N + (0 if interior else 1):
            continue
        if kind == 'wedge' and idx[0] + idx[1] >= N + (0 if interior else 1):
            continue
        pts.append(x)
    return np.array(pts, dtype=float).T
