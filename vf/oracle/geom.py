"""Geometric oracles on first-order vertex data: measures, brute-force location, validity of a
mesh, nestedness of a refined mesh in its parent.  Independent of skfem tables except m.p, m.t."""
import numpy as np

from . import maps
from .topo import Topo, local_edges, local_facets


def kind_of(m):
    from ..gen.meshes import KIND
    return KIND[type(m).__name__]


def nlocal(m):
    return m.elem.refdom.nnodes


def verts(m):
    """(p restricted to vertices, t vertex rows)"""
    nl = nlocal(m)
    t = m.t[:nl]
    nv = int(t.max()) + 1 if t.size else 0
    return m.p[:, :max(nv, 0)] if m.p.shape[1] >= nv else m.p, t


def cell_measures(m):
    kind = kind_of(m)
    p, t = m.p, m.t[:nlocal(m)]
    return np.array([maps.cell_measure(kind, p[:, t[:, c]]) for c in range(t.shape[1])])


def facet_measure_pts(P):
    """measure of a straight facet given its vertex coordinates (dim, nv): point, segment,
    triangle, (planar or not) quadrilateral as two triangles"""
    d, n = P.shape
    if n == 1:
        return 1.0
    if n == 2:
        return float(np.linalg.norm(P[:, 1] - P[:, 0]))
    if n == 3:
        return 0.5 * float(np.linalg.norm(np.cross(P[:, 1] - P[:, 0], P[:, 2] - P[:, 0])))
    # quadrilateral in cyclic order
    return (0.5 * float(np.linalg.norm(np.cross(P[:, 1] - P[:, 0], P[:, 2] - P[:, 0])))
            + 0.5 * float(np.linalg.norm(np.cross(P[:, 2] - P[:, 0], P[:, 3] - P[:, 0]))))


def cyclic(m, vs):
    """order the vertices of a quadrilateral facet cyclically using the reference facet tables"""
    return vs


def topo(m):
    return Topo(m.t[:nlocal(m)], local_facets(m), local_edges(m))


def boundary_measure(m, T=None, with_info=False):
    """sum of the measures of the facets with exactly one cell; with_info also returns the
    number of such facets and whether all of them are planar (quadrilateral facets of general
    hexahedra are bilinear surfaces whose area is not conserved by a two-triangle formula)"""
    T = T or topo(m)
    tot = 0.0
    count = 0
    planar = True
    for c, fs in enumerate(T.cell_facets):
        for s, key in enumerate(fs):
            if len(T.facet_cells[key]) == 1:
                loc = T.lfacets[s]
                P = m.p[:, [T.cells[c][i] for i in loc]]
                tot += facet_measure_pts(P)
                count += 1
                if P.shape[1] == 4 and P.shape[0] == 3:
                    e = P[:, 1:] - P[:, :1]
                    vol = abs(np.linalg.det(e))
                    if vol > 1e-12 * np.abs(e).max() ** 3:
                        planar = False
    if with_info:
        return tot, count, planar
    return tot


def bbox(m):
    t = m.t[:nlocal(m)]
    P = m.p[:, t]         # dim, nlocal, ncells
    return P.min(1), P.max(1)


def locate(m, x, tol=1e-9, boxes=None):
    """all cells whose closed hull contains the point x (brute force with a bounding-box prefilter)"""
    kind = kind_of(m)
    t = m.t[:nlocal(m)]
    lo, hi = boxes if boxes is not None else bbox(m)
    span = (hi - lo).max(0)
    cand = np.nonzero(np.all((x[:, None] >= lo - tol * (1 + span)) & (x[:, None] <= hi + tol * (1 + span)), axis=0))[0]
    out = []
    for c in cand:
        P = m.p[:, t[:, c]]
        try:
            X = maps.invF1(kind, P, x[:, None])
        except np.linalg.LinAlgError:
            continue
        if maps.inside_ref(kind, X, tol=tol)[0]:
            out.append(int(c))
    return out


def basic_validity(ctx, m, sig, ref_scale=None, allow_unused=0):
    """no duplicate/unused vertices, positive measures, every facet has <= 2 cells"""
    nl = nlocal(m)
    t = m.t[:nl]
    nv = m.nvertices
    P = m.p
    cols = {tuple(c) for c in P.T.tolist()}
    if len(cols) != P.shape[1]:
        ctx.fail('duplicate_vertices', f'{P.shape[1] - len(cols)} duplicated coordinates', **sig)
    used = np.unique(t)
    if not (nv - allow_unused <= len(used) <= nv) or (len(used) and used[-1] != nv - 1):
        ctx.fail('unused_vertices', f'{nv} vertices, {len(used)} used', **sig)
    vol = cell_measures(m)
    ref = ref_scale if ref_scale is not None else (vol.max() if len(vol) else 1.0)
    if len(vol) and vol.min() <= 1e-12 * ref:
        ctx.fail('degenerate_cell', f'min measure {vol.min():.3e}', **sig)
    T = topo(m)
    if T.facet_cells and max(len(v) for v in T.facet_cells.values()) > 2:
        ctx.fail('facet_with_3_cells', '', **sig)
    # duplicated cells
    if len({frozenset(c) for c in T.cells}) != len(T.cells):
        ctx.fail('duplicate_cells', '', **sig)
    return vol, T


def parent_map(old, new, tol=1e-9):
    """for each cell of `new`: index of a cell of `old` whose closed hull contains the child's
    centroid and all its vertices; -1 if none"""
    nl = nlocal(new)
    t = new.t[:nl]
    boxes = bbox(old)
    parent = np.full(t.shape[1], -1, dtype=np.int64)
    vloc = {}
    for c in range(t.shape[1]):
        cen = new.p[:, t[:, c]].mean(1)
        for k in locate(old, cen, tol, boxes):
            ok = True
            for v in t[:, c]:
                v = int(v)
                if v not in vloc:
                    vloc[v] = set(locate(old, new.p[:, v], tol, boxes))
                if k not in vloc[v]:
                    ok = False
                    break
            if ok:
                parent[c] = k
                break
    return parent


def point_on_segment(x, a, b, tol):
    ab = b - a
    L2 = float(ab @ ab)
    if L2 == 0:
        return np.linalg.norm(x - a) <= tol
    s = float((x - a) @ ab) / L2
    return -tol <= s <= 1 + tol and np.linalg.norm(a + s * ab - x) <= tol * (1 + np.sqrt(L2))
