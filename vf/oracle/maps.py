"""Independent reference->physical maps written directly from vertex coordinates.

Only the *convention* (reference coordinates of local vertex k) is read from skfem.refdom;
shape functions, Jacobians and inverse maps are written here.
"""
import itertools

import numpy as np


def ref_vertices(kind):
    from skfem import refdom as rd
    return {'line': rd.RefLine, 'tri': rd.RefTri, 'tet': rd.RefTet, 'quad': rd.RefQuad, 'hex': rd.RefHex,
            'wedge': rd.RefWedge}[kind].p


def shape1(kind, X):
    """first-order nodal shape functions N_k(X): returns (nlocal, npts); X: (dim, npts)"""
    V = ref_vertices(kind)
    X = np.asarray(X, dtype=float)
    if kind in ('line', 'tri', 'tet'):
        lam0 = 1.0 - X.sum(0)
        # local vertex k sits at V[:, k]: origin -> lam0, unit vector e_j -> X_j
        out = []
        for k in range(V.shape[1]):
            v = V[:, k]
            if np.all(v == 0):
                out.append(lam0)
            else:
                j = int(np.nonzero(v)[0][0])
                out.append(X[j])
        return np.array(out)
    if kind in ('quad', 'hex'):
        out = []
        for k in range(V.shape[1]):
            N = np.ones(X.shape[1])
            for a in range(V.shape[0]):
                N = N * (X[a] if V[a, k] == 1 else (1.0 - X[a]))
            out.append(N)
        return np.array(out)
    if kind == 'wedge':
        out = []
        for k in range(6):
            v = V[:, k]
            tri = (1 - X[0] - X[1]) if (v[0] == 0 and v[1] == 0) else (X[0] if v[0] == 1 else X[1])
            out.append(tri * (X[2] if v[2] == 1 else 1 - X[2]))
        return np.array(out)
    raise ValueError(kind)


def dshape1(kind, X):
    """derivatives dN_k/dX_a: (nlocal, dim, npts), by exact central differences of the
    (multi)linear shape functions (they are polynomials of degree <= 1 per variable)"""
    X = np.asarray(X, dtype=float)
    d = X.shape[0]
    out = np.zeros((shape1(kind, X).shape[0], d, X.shape[1]))
    h = 0.5
    for a in range(d):
        e = np.zeros((d, 1))
        e[a] = h
        out[:, a, :] = (shape1(kind, X + e) - shape1(kind, X - e)) / (2 * h)
    return out


def F1(kind, P, X):
    """P: (dim, nlocal) vertex coordinates of one cell; X: (dim_ref, npts) -> (dim, npts)"""
    return P @ shape1(kind, X)


def DF1(kind, P, X):
    """Jacobian (dim, dim_ref, npts)"""
    dN = dshape1(kind, X)
    return np.einsum('ik,kan->ian', P, dN)


def invF1(kind, P, x, iters=60):
    """inverse map by Newton (exact in one step for affine cells); x: (dim, npts)"""
    d = P.shape[0]
    x = np.asarray(x, dtype=float)
    X = np.full((d, x.shape[1]), 1.0 / 3.0)
    for _ in range(iters):
        r = F1(kind, P, X) - x
        J = DF1(kind, P, X)
        dX = np.zeros_like(X)
        for n in range(x.shape[1]):
            dX[:, n] = np.linalg.solve(J[:, :, n], r[:, n])
        X = X - dX
        if np.abs(dX).max() < 1e-14:
            break
    return X


def inside_ref(kind, X, tol=1e-9):
    X = np.asarray(X)
    ok = np.all(X >= -tol, axis=0) & np.all(X <= 1 + tol, axis=0)
    if kind in ('tri', 'tet'):
        ok &= X.sum(0) <= 1 + tol
    if kind == 'wedge':
        ok &= (X[0] + X[1]) <= 1 + tol
    return ok


def cell_measure(kind, P):
    d = P.shape[0]
    if kind in ('line', 'tri', 'tet'):
        return abs(np.linalg.det(P[:, 1:] - P[:, :1])) / [1, 1, 2, 6][d]
    # multilinear / prism: Gauss integration of |det DF| (degree <= 2 per variable: 2 points exact
    # for quads, 3 points for hexes); the triangle part of the prism by a degree-2 rule
    g, w = np.polynomial.legendre.leggauss(3)
    g = (g + 1) / 2
    w = w / 2
    if kind in ('quad', 'hex'):
        pts = np.array(list(itertools.product(g, repeat=d))).T
        ws = np.prod(np.array(list(itertools.product(w, repeat=d))), axis=1)
    else:
        tp = np.array([[1 / 6, 2 / 3, 1 / 6], [1 / 6, 1 / 6, 2 / 3]])
        tw = np.array([1 / 6, 1 / 6, 1 / 6])
        pts = np.array([[tp[0, i], tp[1, i], g[j]] for i in range(3) for j in range(3)]).T
        ws = np.array([tw[i] * w[j] for i in range(3) for j in range(3)])
    J = DF1(kind, P, pts)
    dets = np.array([np.linalg.det(J[:, :, n]) for n in range(pts.shape[1])])
    return abs(float(np.sum(ws * dets)))
