"""Exact rational multivariate polynomials and their integrals (no dependence on skfem).

Poly: dict exponent-tuple -> Fraction.  Every float handed in is an exact dyadic rational
(Fraction(float) is lossless), so results are exact.
"""
import itertools
import math
from fractions import Fraction as Fr


class Poly(dict):
    @staticmethod
    def const(c, d):
        c = Fr(c)
        return Poly({(0,) * d: c}) if c != 0 else Poly()

    @staticmethod
    def var(k, d):
        return Poly({tuple(int(i == k) for i in range(d)): Fr(1)})

    @staticmethod
    def monomial(e):
        return Poly({tuple(e): Fr(1)})

    def dim(self):
        for e in self:
            return len(e)
        return None

    def __add__(self, o):
        if not isinstance(o, Poly):
            raise TypeError
        r = dict(self)
        for e, c in o.items():
            r[e] = r.get(e, 0) + c
        return Poly({e: c for e, c in r.items() if c != 0})

    def __neg__(self):
        return Poly({e: -c for e, c in self.items()})

    def __sub__(self, o):
        return self + (-o)

    def __mul__(self, o):
        if not isinstance(o, Poly):
            o = Fr(o)
            return Poly({e: c * o for e, c in self.items() if c * o != 0})
        r = {}
        for e1, c1 in self.items():
            for e2, c2 in o.items():
                e = tuple(a + b for a, b in zip(e1, e2))
                r[e] = r.get(e, 0) + c1 * c2
        return Poly({e: c for e, c in r.items() if c != 0})

    __rmul__ = __mul__

    def pow(self, n, d):
        r = Poly.const(1, d)
        for _ in range(n):
            r = r * self
        return r

    def diff(self, k):
        return Poly({tuple(a - (i == k) for i, a in enumerate(e)): c * e[k]
                     for e, c in self.items() if e[k] > 0})

    def degree(self):
        return max((sum(e) for e in self), default=-1)

    def degree_in(self, k):
        return max((e[k] for e in self), default=-1)

    def compose(self, subs, d_out):
        """substitute variable i -> subs[i] (Poly in d_out variables)"""
        r = Poly()
        cache = {}
        for e, c in self.items():
            term = Poly.const(c, d_out)
            for i, a in enumerate(e):
                if a:
                    key = (i, a)
                    if key not in cache:
                        cache[key] = subs[i].pow(a, d_out)
                    term = term * cache[key]
            r = r + term
        return r

    def eval(self, x):
        """evaluate at a point (sequence of Fractions or floats) exactly if Fractions"""
        tot = 0
        for e, c in self.items():
            v = c
            for xi, a in zip(x, e):
                if a:
                    v = v * xi ** a
            tot = tot + v
        return tot

    def evalf(self, X):
        """float evaluation on numpy array X of shape (d, ...)"""
        import numpy as np
        out = np.zeros(X.shape[1:])
        for e, c in self.items():
            v = float(c)
            for k, a in enumerate(e):
                if a:
                    v = v * X[k] ** a
            out = out + v
        return out


def int_ref(poly, kind):
    """exact integral over the reference cell: 'simplex' (unit simplex of the polynomial's
    dimension), 'box' (unit cube), 'wedge' (unit triangle in x,y times [0,1] in z)"""
    tot = Fr(0)
    for e, c in poly.items():
        if kind == 'simplex':
            num = 1
            for a in e:
                num *= math.factorial(a)
            tot += c * Fr(num, math.factorial(sum(e) + len(e)))
        elif kind == 'box':
            v = Fr(1)
            for a in e:
                v *= Fr(1, a + 1)
            tot += c * v
        elif kind == 'wedge':
            tot += (c * Fr(math.factorial(e[0]) * math.factorial(e[1]), math.factorial(e[0] + e[1] + 2))
                    * Fr(1, e[2] + 1))
        else:
            raise ValueError(kind)
    return tot


def det(A):
    n = len(A)
    if n == 1:
        return A[0][0]
    if n == 2:
        return A[0][0] * A[1][1] - A[0][1] * A[1][0]
    if n == 3:
        return (A[0][0] * (A[1][1] * A[2][2] - A[1][2] * A[2][1])
                - A[0][1] * (A[1][0] * A[2][2] - A[1][2] * A[2][0])
                + A[0][2] * (A[1][0] * A[2][1] - A[1][1] * A[2][0]))
    raise ValueError


def fr_matrix(V):
    return [[Fr(float(x)) for x in row] for row in V]


def affine_map_polys(V):
    """V: d x (d+1) vertex coordinates (floats/Fractions). Returns x_i(X) polys in d ref variables."""
    d = len(V)
    dr = len(V[0]) - 1
    xs = []
    for i in range(d):
        pz = Poly.const(V[i][0], dr)
        for j in range(dr):
            pz = pz + Poly.var(j, dr) * (V[i][j + 1] - V[i][0])
        xs.append(pz)
    return xs


def int_poly_simplex(f, V):
    """exact integral of Poly f (in d physical variables) over the simplex with vertex matrix V
    (d x (d+1) Fractions); unsigned measure"""
    d = len(V)
    xs = affine_map_polys(V)
    g = f.compose(xs, d)
    A = [[V[i][j + 1] - V[i][0] for j in range(d)] for i in range(d)]
    return int_ref(g, 'simplex') * abs(det(A))


# multilinear cells ---------------------------------------------------------------------
def multilinear_map_polys(V, corners):
    """V: d x 2^d vertex coordinates; corners: list of 2^d binary tuples giving the reference
    corner of each local vertex.  Returns x_i(X) as polys in d reference variables."""
    d = len(V)
    xs = []
    for i in range(d):
        pz = Poly()
        for k, cor in enumerate(corners):
            shape = Poly.const(1, d)
            for a in range(d):
                shape = shape * (Poly.var(a, d) if cor[a] else (Poly.const(1, d) - Poly.var(a, d)))
            pz = pz + shape * V[i][k]
        xs.append(pz)
    return xs


def jac_det_poly(xs):
    d = len(xs)
    J = [[xs[i].diff(j) for j in range(d)] for i in range(d)]
    if d == 1:
        return J[0][0]
    if d == 2:
        return J[0][0] * J[1][1] - J[0][1] * J[1][0]
    return (J[0][0] * (J[1][1] * J[2][2] - J[1][2] * J[2][1])
            - J[0][1] * (J[1][0] * J[2][2] - J[1][2] * J[2][0])
            + J[0][2] * (J[1][0] * J[2][1] - J[1][1] * J[2][0]))


def int_poly_multilinear(f, V, corners):
    """exact integral of f over a convex multilinear cell; returns (value, detpoly). The
    caller must make sure det has constant sign (checked at corners for bilinear maps)."""
    d = len(V)
    xs = multilinear_map_polys(V, corners)
    dj = jac_det_poly(xs)
    g = f.compose(xs, d) * dj
    v = int_ref(g, 'box')
    # integral of f with the unsigned measure: the Jacobian determinant has one sign on a valid cell
    sgn = 1 if dj.eval([Fr(1, 2)] * d) > 0 else -1
    return v * sgn, dj


def monomials_total(d, n):
    return [e for e in itertools.product(range(n + 1), repeat=d) if sum(e) <= n]


def monomials_tensor(d, n):
    return list(itertools.product(range(n + 1), repeat=d))


def wedge_map_polys(V, corners):
    """prism map x_i(X): corners[k] = (a, b, c) reference position of local vertex k with (a, b) a vertex
    of the unit triangle and c in {0, 1}"""
    d = 3
    xs = []
    X0, X1, X2 = Poly.var(0, 3), Poly.var(1, 3), Poly.var(2, 3)
    one = Poly.const(1, 3)
    for i in range(d):
        pz = Poly()
        for k, cor in enumerate(corners):
            tri = (one - X0 - X1) if (cor[0] == 0 and cor[1] == 0) else (X0 if cor[0] == 1 else X1)
            lin = X2 if cor[2] == 1 else (one - X2)
            pz = pz + tri * lin * V[i][k]
        xs.append(pz)
    return xs


def int_poly_wedge(f, V, corners):
    xs = wedge_map_polys(V, corners)
    dj = jac_det_poly(xs)
    g = f.compose(xs, 3) * dj
    sgn = 1 if dj.eval([Fr(1, 4), Fr(1, 4), Fr(1, 2)]) > 0 else -1
    return int_ref(g, 'wedge') * sgn, dj


def int_poly_facet(f, P):
    """exact integral of Poly f over a straight facet with vertex coordinates P (dim x nv Fractions):
    point, segment, triangle, planar quadrilateral (vertices in cyclic order).
    returns (rational part R, squared normalisation S) with integral = R / sqrt(S) * ... see below:
    the value is  R * sqrt(S)  for segments/triangles (S = squared measure factor) and R / sqrt(S)
    for planar quadrilaterals; to keep it simple the function returns a float computed from exact
    rationals with a single sqrt."""
    import math
    d = len(P)
    nv = len(P[0])
    if nv == 1:
        return float(f.eval([P[i][0] for i in range(d)]))
    if nv == 2:
        xs = [Poly.const(P[i][0], 1) + Poly.var(0, 1) * (P[i][1] - P[i][0]) for i in range(d)]
        g = f.compose(xs, 1)
        L2 = sum((P[i][1] - P[i][0]) ** 2 for i in range(d))
        return float(int_ref(g, 'box')) * math.sqrt(L2)
    if nv == 3:
        xs = [Poly.const(P[i][0], 2) + Poly.var(0, 2) * (P[i][1] - P[i][0]) + Poly.var(1, 2) * (P[i][2] - P[i][0])
              for i in range(d)]
        g = f.compose(xs, 2)
        a = [P[i][1] - P[i][0] for i in range(d)]
        b = [P[i][2] - P[i][0] for i in range(d)]
        cr = [a[1] * b[2] - a[2] * b[1], a[2] * b[0] - a[0] * b[2], a[0] * b[1] - a[1] * b[0]]
        return float(int_ref(g, 'simplex')) * math.sqrt(sum(c * c for c in cr))
    # planar quadrilateral, bilinear parametrisation through the cyclic vertices 0, 1, 2, 3
    s, t = Poly.var(0, 2), Poly.var(1, 2)
    one = Poly.const(1, 2)
    xs = []
    for i in range(d):
        xs.append((one - s) * (one - t) * P[i][0] + s * (one - t) * P[i][1] + s * t * P[i][2] + (one - s) * t * P[i][3])
    g = f.compose(xs, 2)
    xs_s = [x.diff(0) for x in xs]
    xs_t = [x.diff(1) for x in xs]
    cr = [xs_s[1] * xs_t[2] - xs_s[2] * xs_t[1], xs_s[2] * xs_t[0] - xs_s[0] * xs_t[2], xs_s[0] * xs_t[1] - xs_s[1] * xs_t[0]]
    # constant unit normal direction N (at the first corner); surface element = N . (x_s x x_t) / |N|
    N = [c.eval([Fr(0), Fr(0)]) for c in cr]
    n2 = sum(c * c for c in N)
    dens = cr[0] * N[0] + cr[1] * N[1] + cr[2] * N[2]
    return float(int_ref(g * dens, 'box')) / math.sqrt(n2)
