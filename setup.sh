#!/bin/bash
# Offline setup: scikit-fem is pure Python and /venv has it as an editable install of /repo,
# so there is nothing to build. Verify the interpreter and its packages; install hypothesis
# from the offline wheelhouse into /verif/.deps only if it is missing.
cd "$(dirname "$0")" || exit 2
PY=${VF_PYTHON:-/venv/bin/python}
if ! "$PY" -c "import hypothesis" 2>/dev/null; then
  "$PY" -m pip install --no-index --find-links /opt/veriftools/wheels --target ./.deps hypothesis || exit 2
fi
PYTHONPATH=. "$PY" - <<'PYEOF' || exit 2
import vf, sys
from vf.core import setup
sk = setup()
import numpy, scipy, hypothesis
print('setup ok: skfem from', sk.__file__, '| numpy', numpy.__version__, '| scipy', scipy.__version__, '| hypothesis', hypothesis.__version__)
PYEOF
