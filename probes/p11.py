import numpy as np, warnings
warnings.filterwarnings('ignore')
from skfem import *
from scipy.spatial import Delaunay
rng = np.random.default_rng(11)
def onseg(pt, seg): 
    a, b = seg[:,0], seg[:,1]; d = b-a; s = np.dot(pt-a, d)/np.dot(d,d); return abs(d[0]*(pt-a)[1]-d[1]*(pt-a)[0])<1e-12 and -1e-12<=s<=1+1e-12
def chk(m, nF=5):
    F = rng.choice(m.nfacets, nF, replace=False)
    mm = m.with_boundaries({'a': F}).refined(); old = m.p[:, m.facets[:, F]]
    ok = all(any(onseg(mm.p[:, v], old[:, :, j]) for j in range(len(F))) for f in mm.boundaries['a'] for v in mm.facets[:, f])
    return ok and len(mm.boundaries['a']) == 2*nF
bad = 0
for trial in range(50):
    mq0 = MeshQuad().refined(1); t = mq0.t.copy()
    for k in range(t.shape[1]): t[:, k] = np.roll(t[:, k], rng.integers(4))
    vp = rng.permutation(mq0.p.shape[1]); m = MeshQuad(mq0.p[:, vp], np.argsort(vp)[t])
    bad += not chk(m)
print('quad bad', bad)
bad = 0
for trial in range(50):
    p = rng.random((2, 9)); m = MeshTri(p, Delaunay(p.T).simplices.T); bad += not chk(m)
print('tri bad', bad)
# C18 restrict w/ tags
bad = 0
for trial in range(100):
    p = rng.random((2, 12)); m = MeshTri(p, Delaunay(p.T).simplices.T)
    F = rng.choice(m.nfacets, 6, replace=False); S = rng.choice(m.nelements, 5, replace=False)
    mm = m.with_boundaries({'a': F}).with_subdomains({'s': S})
    keep = rng.choice(m.nelements, rng.integers(1, m.nelements), replace=False)
    r, ix = mm.restrict(keep, return_mapping=True)
    sig = lambda M, cols: {frozenset(map(tuple, M.p[:, c].T.tolist())) for c in cols.T}
    exp_s = sig(m, m.t[:, np.intersect1d(S, keep)]); got_s = sig(r, r.t[:, r.subdomains['s']])
    keptF = [f for f in F if np.isin(m.f2t[:, f], keep).any()]
    exp_b = sig(m, m.facets[:, keptF]) if keptF else set(); got_b = sig(r, r.facets[:, r.boundaries['a']]) if len(r.boundaries['a']) else set()
    if exp_s != got_s or exp_b != got_b or not np.array_equal(r.p, m.p[:, ix]): bad += 1
print('restrict bad', bad)
# to_meshtri boundaries/subdomains
mq = MeshQuad().refined(2)
F = rng.choice(mq.nfacets, 7, replace=False); S = rng.choice(mq.nelements, 5, replace=False)
mm = mq.with_boundaries({'a': F}).with_subdomains({'s': S})
for style in [None, 'x']:
    try:
        mt = mm.to_meshtri(style=style)
        print(style, 'b', len(mt.boundaries['a']), 's', len(mt.subdomains['s']))
    except Exception as ex: print(style, 'EXC', type(ex).__name__, str(ex)[:80])
