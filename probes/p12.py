import numpy as np, warnings, inspect
warnings.filterwarnings('ignore')
import skfem.element as E
from skfem.element import *
rng = np.random.default_rng(12)
def pts(refdom, n=7):
    d = refdom.dim()
    X = rng.random((d, n)) * 0.6 + 0.05
    if refdom.name in ('Triangular', 'Tetrahedral'): X = X / d
    if refdom.name == 'Wedge': X[:2] /= 2
    return X
def fd(f, X, k, h=1e-4):
    # 4th order central
    e = np.zeros_like(X); e[k] = h
    return (-f(X + 2*e) + 8*f(X + e) - 8*f(X - e) + f(X - 2*e)) / (12*h)
skip = {'ElementVector','ElementVectorH1','ElementDG','ElementComposite','ElementTriDG','ElementQuadDG','ElementHexDG','ElementTetDG','Element','ElementH1','ElementHdiv','ElementHcurl','ElementGlobal','DiscreteField'}
for n in sorted(set(E.__all__) - skip):
    c = getattr(E, n)
    if issubclass(c, ElementGlobal): continue
    args_list = [(2,), (3,), (4,)] if n in ('ElementLinePp', 'ElementQuadP') else [()]
    for args in args_list:
        e = c(*args)
        nb = int(e._bfun_counts().sum())
        X = pts(e.refdom); d = e.refdom.dim()
        worst = 0; kind = None
        for i in range(nb):
            def val(Y, i=i):
                ee = c(*args)
                return np.array(ee.lbasis(Y, i)[0])
            phi, dphi = c(*args).lbasis(X, i)
            phi = np.array(phi); 
            if isinstance(e, ElementHdiv) and not n.startswith('ElementTriHHJ'):
                num = sum(fd(lambda Y: val(Y)[k], X, k) for k in range(d)); kind = 'div'
            elif isinstance(e, ElementHcurl):
                if d == 2: num = fd(lambda Y: val(Y)[1], X, 0) - fd(lambda Y: val(Y)[0], X, 1); kind = 'curl2'
                else:
                    g = lambda a, b: fd(lambda Y: val(Y)[a], X, b)
                    num = np.array([g(2,1)-g(1,2), g(0,2)-g(2,0), g(1,0)-g(0,1)]); kind = 'curl3'
            elif n.startswith('ElementTriHHJ'):
                continue
            else:
                num = np.array([fd(val, X, k) for k in range(d)]); kind = 'grad'
            err = np.abs(np.array(dphi) - num).max() / (1 + np.abs(num).max())
            worst = max(worst, err)
        flag = '' if worst < 1e-7 else '   <<<<<<'
        print(f'{n}{args} {kind} {worst:.1e}{flag}')
