import numpy as np, warnings, logging
warnings.filterwarnings('ignore'); logging.getLogger('skfem').setLevel(logging.ERROR)
from skfem import *
rng = np.random.default_rng(33)
m0 = MeshTri.init_sqsymmetric(); p = m0.p.copy(); I = m0.interior_nodes(); p[:, I] += .1*(rng.random((2, len(I)))-.5)
vp = rng.permutation(p.shape[1]); m = MeshTri(p[:, vp], np.argsort(vp)[m0.t])
Xv = np.array([[0., 1., 0.], [0., 0., 1.]]); Xe = np.array([[.5, .5, 0.], [0., .5, .5]])   # vertices, facet midpoints (facet order 01,12,02)
def duality(E):
    e = E(); nb = int(e._bfun_counts().sum())
    bv = Basis(m, E(), quadrature=(Xv, np.ones(3))); be = Basis(m, E(), quadrature=(Xe, np.ones(3)))
    # unit normals of facets per cell (sign free)
    names = e.dofnames
    nn = e.nodal_dofs; nf = e.facet_dofs; ni = e.interior_dofs
    worst = 0
    for c in range(m.nelements):
        D = np.zeros((nb, nb))
        for j in range(nb):
            fv = bv.basis[j][0]; fe = be.basis[j][0]
            row = 0
            for v in range(3):
                for k in range(nn):
                    nm = names[k]
                    val = {'u': np.array(fv)[c, v], 'u_x': fv.grad[0][c, v], 'u_y': fv.grad[1][c, v],
                           'u_xx': fv.hess[0, 0][c, v] if fv.hess is not None else None, 'u_xy': fv.hess[0, 1][c, v] if fv.hess is not None else None, 'u_yy': fv.hess[1, 1][c, v] if fv.hess is not None else None}[nm]
                    D[row, j] = val; row += 1
            for f in range(3):
                a, b_ = m.p[:, m.t[[0, 1, 0][f], c]], m.p[:, m.t[[1, 2, 2][f], c]]
                tvec = b_ - a; nvec = np.array([tvec[1], -tvec[0]]) / np.linalg.norm(tvec)
                for k in range(nf):
                    nm = names[nn + k]
                    if nm == 'u_n': val = fe.grad[0][c, f]*nvec[0] + fe.grad[1][c, f]*nvec[1]
                    elif nm == 'u': val = np.array(fe)[c, f]
                    D[row, j] = val; row += 1
            # interior dofs: skip (leave rows zero)
        nchk = 3*nn + 3*nf
        A = np.abs(D[:nchk, :nchk]); 
        err = np.abs(A - np.eye(nchk)).max()
        worst = max(worst, err)
    return worst
for E in [ElementTriMorley, ElementTriArgyris, ElementTriHermite, ElementTri15ParamPlate, ElementTriP1G, ElementTriP2G]:
    try: print(E.__name__, '%.1e' % duality(E))
    except Exception as ex: print(E.__name__, 'EXC', type(ex).__name__, str(ex)[:80])
