"""C01 broad sweep: (mesh class) x (element) x (basis kind): identity v^T A u == J(u_h, v_h), builds support matrix."""
import numpy as np, warnings, logging, inspect, sys, json
warnings.filterwarnings('ignore'); logging.getLogger('skfem').setLevel(logging.ERROR)
import skfem.element as E
from skfem import *
from skfem.helpers import *
from scipy.spatial import Delaunay
rng = np.random.default_rng(31)
def jig(m, s=0.12):
    p = m.p.copy(); I = m.interior_nodes(); I = I[I < m.nvertices]
    p[:, I] += s*(rng.random((p.shape[0], len(I)))-.5)*m.param(); return type(m)(p, m.t)
def renum(m, cls):
    vp = rng.permutation(m.nvertices); return cls(m.p[:, vp], np.argsort(vp)[m.t][:, rng.permutation(m.nelements)])
p = rng.random((2, 10)); mtri = MeshTri(p, Delaunay(p.T).simplices.T)
mtri_q = renum(jig(MeshTri.init_sqsymmetric()), MeshTri)   # quality mesh for global elements
p3 = rng.random((3, 8)); mtet = MeshTet(p3, Delaunay(p3.T).simplices.T)
mquad = renum(jig(MeshQuad().refined(1)), MeshQuad); mhex = renum(jig(MeshHex().refined(1), .06), MeshHex)
mline = MeshLine(np.array([0., .2, .7, 1.3])); mwedge = MeshTri.init_symmetric() * MeshLine(np.array([0., .5, 1.]))
mtri2 = MeshTri2.from_mesh(mtri_q); pp = mtri2.p.copy(); pp[:, mtri_q.nvertices:] += .02*(rng.random(pp[:, mtri_q.nvertices:].shape)-.5); mtri2 = MeshTri2(pp, mtri2.t)
mquad_rect = MeshQuad.init_tensor(np.array([0,.3,1.]), np.array([0,.6,1.])); mhex_box = MeshHex.init_tensor(np.array([0,.4,1.]), np.array([0,.5,1.]), np.array([0,1.]))
meshes = {'RefTri': [('tri-delaunay', mtri), ('tri2-curved', mtri2)], 'RefTet': [('tet-delaunay', mtet)], 'RefQuad': [('quad-jig', mquad)], 'RefHex': [('hex-jig', mhex)], 'RefLine': [('line', mline)], 'RefWedge': [('wedge', mwedge)]}
skip = {'ElementVector','ElementVectorH1','ElementDG','ElementComposite','ElementTriDG','ElementQuadDG','ElementHexDG','ElementTetDG','Element','ElementH1','ElementHdiv','ElementHcurl','ElementGlobal','DiscreteField'}
def elems():
    for n in sorted(set(E.__all__) - skip):
        c = getattr(E, n)
        if n in ('ElementLinePp', 'ElementQuadP'): yield n + '(3)', (lambda c=c: c(3))
        else: yield n, c
    yield 'Vector(TriP2)', lambda: ElementVector(ElementTriP2()); yield 'Vector(TetP1)', lambda: ElementVector(ElementTetP1())
    yield 'VectorVector(TriP1)', lambda: ElementVector(ElementVector(ElementTriP1()))
    yield 'DG(TriP2)', lambda: ElementDG(ElementTriP2()); yield 'DG(Hex2)', lambda: ElementDG(ElementHex2())
    yield 'TriP2*TriRT1*TriP0', lambda: ElementTriP2()*ElementTriRT1()*ElementTriP0()
    yield 'Vector(TetP2)*TetP1', lambda: ElementVector(ElementTetP2())*ElementTetP1()
def fields(f):
    """list of (name, array) for available fields of DiscreteField"""
    out = [('val', np.array(f))]
    for a in ['grad', 'div', 'curl', 'hess']:
        if getattr(f, a) is not None: out.append((a, np.array(getattr(f, a))))
    return out
def scal(a, w):
    """contract arbitrary-order field to scalar (nel, nqp) with fixed pseudo-random weights"""
    a = np.asarray(a)
    k = a.ndim - 2
    if k == 0: return a
    wt = np.cos(1.0 + np.arange(int(np.prod(a.shape[:k])))).reshape(a.shape[:k])
    return np.einsum(wt, list(range(k)), a, list(range(k)) + [k, k+1], [k, k+1])
def form2(*args):
    w = args[-1]; n = (len(args) - 1) // 2; us = args[:n]; vs = args[n:2*n]
    out = 0
    for a, u in enumerate(us):
        for b_, v in enumerate(vs):
            fu = fields(u); fv = fields(v)
            # nonsymmetric: last field of u with first of v, plus value-value weighted by x
            out = out + (1 + a + 2*b_) * scal(fu[-1][1], w) * scal(fv[0][1], w) * (1 + w.x[0]) + .5 * scal(fu[0][1], w) * scal(fv[-1][1], w)
    return out
results = {}
def run(tag, mk_u, mk_v, m, kind):
    kw = dict(intorder=4)
    try:
        if kind == 'cell': ub = Basis(m, mk_u(), **kw); vb = Basis(m, mk_v(), **kw)
        elif kind == 'subset':
            sub = rng.choice(m.nelements, max(1, m.nelements//2), replace=False); ub = Basis(m, mk_u(), elements=sub, **kw); vb = Basis(m, mk_v(), elements=sub, **kw)
        elif kind == 'facet': ub = FacetBasis(m, mk_u(), **kw); vb = FacetBasis(m, mk_v(), **kw)
        elif kind == 'ifacet': ub = InteriorFacetBasis(m, mk_u(), side=0, **kw); vb = InteriorFacetBasis(m, mk_v(), side=1, **kw)
        A = BilinearForm(form2).assemble(ub, vb)
        u = rng.standard_normal(ub.N); v = rng.standard_normal(vb.N)
        uh = ub.interpolate(u); vh = vb.interpolate(v)
        uh = uh if isinstance(uh, tuple) else (uh,); vh = vh if isinstance(vh, tuple) else (vh,)
        J = Functional(lambda w: form2(*uh, *vh, w)).assemble(ub)
        L = LinearForm(lambda *a: form2(*uh, *a)).assemble(vb)
        parts = Functional(lambda w: np.abs(form2(*uh, *vh, w))).assemble(ub)
        e1 = abs(v @ (A @ u) - J) / (parts + 1e-300); e2 = abs(L @ v - J) / (parts + 1e-300)
        ok = A.shape == (vb.N, ub.N)
        return 'ok' if (e1 < 1e-9 and e2 < 1e-9 and ok) else 'MISMATCH %.1e %.1e shape %s' % (e1, e2, ok)
    except Exception as ex:
        return 'EXC %s: %s' % (type(ex).__name__, str(ex)[:60])
from collections import Counter
cnt = Counter(); bad = {}
for name, mk in elems():
    try: rd = mk().refdom.__name__
    except Exception as ex: print(name, 'ctor EXC', ex); continue
    for mname, m in meshes.get(rd, []):
        if issubclass(type(mk()), ElementGlobal) and mname == 'tri-delaunay': m = mtri_q
        if name in ('ElementQuadBFS',): m = mquad_rect
        if name in ('ElementHexC1',): m = mhex_box
        for kind in ['cell', 'subset', 'facet', 'ifacet']:
            if rd == 'RefLine' and kind in ('ifacet',) and False: continue
            r = run(name, mk, mk, m, kind)
            cnt[r.split(' ')[0]] += 1
            if r != 'ok': bad[(name, mname, kind)] = r
for k, v in sorted(bad.items()): print(k, v)
print(cnt)
