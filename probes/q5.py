import numpy as np, warnings, logging
warnings.filterwarnings('ignore'); logging.getLogger('skfem').setLevel(logging.ERROR)
from skfem import *
from q1 import cell_measures, simplex_vol
from scipy.spatial import Delaunay
rng = np.random.default_rng(25)
p = rng.random((2, 9)); mt = MeshTri(p, Delaunay(p.T).simplices.T)
# extrusion
ml = MeshLine(np.array([0.3, 1.0, 0.0, 2.5]))
mw = mt * ml
vol = Functional(lambda w: 1. + 0*w.x[0]).assemble(Basis(mw, ElementWedge1()))
tv = mw.to_meshtet(); volt = sum(simplex_vol(tv.p[:, tv.t[:, c]]) for c in range(tv.nelements))
print('wedge extrusion: area*h', cell_measures(mt).sum()*2.5, 'tet split vol', volt, 'quadrature vol', vol, 'cells', mw.nelements, mt.nelements*3)
mq = MeshLine(np.array([0, .5, 2.])) * MeshLine(np.array([1., 3.]))
print('line*line', type(mq).__name__, cell_measures(mq).sum())
# oriented
mo = mt.oriented(); print('oriented all +', (mo.orientation() == 1).all(), 'same cells', {frozenset(c) for c in mo.t.T.tolist()} == {frozenset(c) for c in mt.t.T.tolist()}, 'sort_t', mo.sort_t)
p3 = rng.random((3, 8)); mT = MeshTet(p3, Delaunay(p3.T).simplices.T); print('tet oriented', (mT.oriented().orientation() == 1).all())
# join
m1 = MeshTri.init_symmetric(); m2 = m1.translated((1., 0.)); m12 = m1 + m2
print('join', m12.nvertices, m12.nelements, cell_measures(m12).sum(), m12.is_valid())
m3 = m1.mirrored((1., 0.)); print('mirrored p', np.abs(m3.p - np.array([-m1.p[0], m1.p[1]])).max(), 'area', cell_measures(m1 + m3).sum())
# scaled/translated/morphed
print('scaled', np.abs(mt.scaled((2., -3.)).p - mt.p*np.array([[2.],[-3.]])).max(), 'scaled float', np.abs(mt.scaled(2.).p - 2*mt.p).max())
print('morphed', np.abs(mt.morphed(lambda p: p[0]+p[1], None).p - np.array([mt.p[0]+mt.p[1], mt.p[1]])).max())
# remove_duplicate / unused
md = MeshTri(np.hstack((m1.p, m1.p[:, :2])), np.hstack((m1.t[:, :2], np.array([[5],[6],[4]]))), validate=False)
r = md.remove_duplicate_nodes(); print('dedup', r.p.shape, r.is_valid())
# trace
tr, fac = mT.trace(mT.boundary_facets(), mtype=None); print('trace', type(tr).__name__, tr.t.shape)
tr2, _ = MeshTet().trace(lambda x: x[0] == 0, mtype=MeshTri, project=lambda p: p[1:]); print('trace tri area', cell_measures(tr2).sum())
# hex to tet
mh = MeshHex().refined(1); print('hex->tet vol', sum(simplex_vol(mh.to_meshtet().p[:, c]) for c in mh.to_meshtet().t.T))
# @ join
M = MeshTri() @ MeshQuad().translated((1., 0.)); print('@', [type(x).__name__ for x in M], M[0].p is M[1].p or np.array_equal(M[0].p, M[1].p), len(M[0].p.T))
# with tags across ops
mtg = mt.with_boundaries({'b': np.array([0, 3])}).with_subdomains({'s': np.array([1])})
for name, op in [('translated', lambda m: m.translated((1., 1.))), ('scaled', lambda m: m.scaled((2., 2.))), ('mirrored', lambda m: m.mirrored((0., 1.))), ('morphed', lambda m: m.morphed(None, lambda p: 2*p[1])), ('oriented', lambda m: m.oriented()), ('remove_unused', lambda m: m.remove_unused_nodes()), ('copy', lambda m: m.copy())]:
    r = op(mtg); print(name, 'tags kept:', r.boundaries is not None and 'b' in r.boundaries, r.subdomains is not None and 's' in r.subdomains, 't same', np.array_equal(np.sort(r.t, 0), np.sort(mtg.t, 0)))
print('+ tags', (mtg + mtg.translated((2., 0.))).boundaries)
