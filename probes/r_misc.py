"""Reproductions of findings 5-11, 17, 19 (DESIGN section 8); prints one line per finding."""
import numpy as np, warnings, logging, scipy.sparse as sp, tempfile, os
warnings.filterwarnings('ignore'); logging.getLogger('skfem').setLevel(logging.ERROR)
from skfem import *
from skfem.generic_utils import OrientedBoundary
from skfem.io.meshio import to_meshio, from_meshio
from skfem.models.poisson import laplace, mass
rng = np.random.default_rng(0)
# 5 enforce with empty rows
A = sp.csr_matrix(np.array([[1., 2, 0, 0], [0, 0, 0, 0], [3, 0, 4, 5], [0, 6, 0, 7]])); b = np.arange(4.); x = np.array([9., 8, 7, 6])
bad = 0
for D in [np.array([0, 1, 2]), np.array([1, 2]), np.array([0, 1]), np.array([2, 1]), np.array([1])]:
    try:
        Ao, bo = enforce(A, b, D=D, x=x); Ad = Ao.toarray(); I = np.setdiff1d(np.arange(4), D)
        ok = np.array_equal(Ad[D], np.eye(4)[D]) and np.array_equal(Ad[I], A.toarray()[I]) and np.array_equal(bo[D], x[D])
    except Exception as ex: ok = False
    bad += not ok
print('5 enforce empty rows: bad', bad, 'of 5')
# 6 ElementGlobal cache across meshes
m1 = MeshTri().refined(1); m3 = m1.scaled((2., 1.)); e = ElementTriMorley()
mass.assemble(Basis(m1, e)); print('6 ElementGlobal reuse diff %.1e' % abs(mass.assemble(Basis(m3, e)) - mass.assemble(Basis(m3, ElementTriMorley()))).max())
# 7 LinePp stale table
e2 = ElementLinePp(3); X = np.array([[.1, .3]]); Y = np.array([[.6, .9]]); e2.lbasis(X, 2)
print('7 LinePp stale diff %.1e' % np.abs(e2.lbasis(Y, 2)[0] - ElementLinePp(3).lbasis(Y, 2)[0]).max())
# 8 Jacobian cache collision
mq = MeshQuad().refined(1); mp = mq.mapping(); X1 = np.array([[.1,.2,.3,.4,.5,.6,.7,.8],[.2,.3,.4,.5,.6,.7,.8,.9]]); ti = np.arange(4, dtype=np.int32)
mp.detDF(X1, ti); print('8 J-cache shape reuse', mp.detDF(X1.reshape(2, 4, 2), ti).shape, 'fresh', MeshQuad().refined(1).mapping().detDF(X1.reshape(2, 4, 2), ti).shape)
# 17 per-cell points with tind None (isoparametric)
try: print('17 iso per-cell None shape', MeshQuad().refined(1).mapping().F(X1.reshape(2, 4, 2)).shape)
except Exception as ex: print('17 iso per-cell None EXC', type(ex).__name__)
# 9 solver closures
m = MeshTri().refined(3); bs = Basis(m, ElementTriP1()); K = laplace.assemble(bs); M = mass.assemble(bs)
s = solver_eigen_scipy(); L1, _ = solve(*condense(K, M, D=bs.get_dofs()), solver=s, k=2); L2, _ = solve(*condense(K, M, D=bs.get_dofs()), solver=s)
print('9 eigen solver reuse: k=2 then default ->', len(L2), '(fresh gives 5)')
s = solver_iter_krylov(rtol=1e-12); solve(K + M, np.ones(K.shape[0]), solver=s)
m2 = MeshTri().refined(2); b2 = Basis(m2, ElementTriP1()); A2 = laplace.assemble(b2) + mass.assemble(b2)
try: x2 = solve(A2, np.ones(A2.shape[0]), solver=s); print('9 krylov reuse ok, residual %.1e' % np.abs(A2 @ x2 - 1).max())
except Exception as ex: print('9 krylov reuse EXC', type(ex).__name__)
# 10 oriented boundary round trip
bad = 0
for trial in range(100):
    m = MeshTri().refined(2); intf = np.nonzero(m.f2t[1] != -1)[0]; k = rng.integers(1, 8); f = rng.choice(intf, k, replace=False); ori = rng.integers(0, 2, k)
    got = from_meshio(to_meshio(m.with_boundaries({'a': OrientedBoundary(f, ori)}))).boundaries['a']
    g = dict(zip(np.asarray(got).tolist(), np.asarray(getattr(got, 'ori', np.zeros(len(got), int))).tolist()))
    bad += g != dict(zip(f.tolist(), ori.tolist()))
print('10 oriented round trip: bad', bad, 'of 100')
# 19 interpolator trailing axes for vector elements
bv = Basis(MeshTri().refined(1), ElementVector(ElementTriP2())); u = rng.standard_normal(bv.N)
try: print('19 trailing axes vector: err %.1e' % np.abs(bv.interpolator(u)(np.array(bv.global_coordinates())) - np.array(bv.interpolate(u))).max())
except Exception as ex: print('19 trailing axes vector EXC', type(ex).__name__)
bsca = Basis(MeshTri().refined(1), ElementTriP2()); us = rng.standard_normal(bsca.N)
print('19 trailing axes scalar: err %.1e' % np.abs(bsca.interpolator(us)(np.array(bsca.global_coordinates())) - np.array(bsca.interpolate(us))).max())
