import numpy as np, warnings
warnings.filterwarnings('ignore')
from skfem import *
from scipy.spatial import Delaunay
rng = np.random.default_rng(3)
fail = {'vertex':0, 'edge':0, 'interior':0}; tot = {'vertex':0,'edge':0,'interior':0}
wrongcell = 0
for trial in range(300):
    n = rng.integers(5, 40)
    p = rng.random((2, n)) * rng.choice([1, 10, 0.01]) + rng.choice([0, 100])
    m = MeshTri(p, Delaunay(p.T).simplices.T)
    f = m.element_finder()
    # vertices
    for kind in ['vertex', 'edge', 'interior']:
        if kind == 'vertex':
            x = m.p[:, rng.integers(0, n, 5)]
        elif kind == 'edge':
            fi = rng.integers(0, m.nfacets, 5); s = rng.random(5)
            x = m.p[:, m.facets[0, fi]] * s + m.p[:, m.facets[1, fi]] * (1 - s)
        else:
            ti = rng.integers(0, m.nelements, 5); w = rng.dirichlet([1,1,1], 5).T
            x = sum(m.p[:, m.t[k, ti]] * w[k] for k in range(3))
        for j in range(x.shape[1]):
            tot[kind] += 1
            try:
                c = f(x[0, j:j+1], x[1, j:j+1])
                # verify containing with tolerance
                tri = m.p[:, m.t[:, c[0]]]
                T = np.array([tri[:,1]-tri[:,0], tri[:,2]-tri[:,0]]).T
                lam = np.linalg.solve(T, x[:, j] - tri[:,0])
                bar = np.array([1-lam.sum(), lam[0], lam[1]])
                if bar.min() < -1e-9: wrongcell += 1
            except ValueError:
                fail[kind] += 1
print(tot, fail, wrongcell)
