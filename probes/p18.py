import numpy as np, warnings, logging, tempfile, os
warnings.filterwarnings('ignore'); logging.getLogger('skfem').setLevel(logging.ERROR)
from skfem import *
from skfem.io.json import to_file as jto, from_file as jfrom
rng = np.random.default_rng(18)
def tagset(M):
    out = {}
    for k, v in (M.boundaries or {}).items(): out['b:'+k] = tuple(sorted(np.asarray(v).tolist()))
    for k, v in (M.subdomains or {}).items(): out['s:'+k] = tuple(sorted(np.asarray(v).tolist()))
    return out
def mk(cls, nref):
    m = cls().refined(nref) if nref else cls()
    # renumber
    nv = m.nvertices
    if cls in (MeshTri, MeshQuad, MeshTet, MeshHex):
        vp = rng.permutation(nv); m = cls(m.p[:, vp], np.argsort(vp)[m.t][:, rng.permutation(m.nelements)])
    bf = m.boundary_facets(); intf = np.setdiff1d(np.arange(m.nfacets), bf)
    F1 = rng.choice(bf, min(3, len(bf)), replace=False); F2 = rng.choice(intf, min(3, len(intf)), replace=False) if len(intf) else F1
    return m.with_boundaries({'bnd': F1, 'mix': np.concatenate((F1[:1], F2))}).with_subdomains({'s1': rng.choice(m.nelements, max(1, m.nelements//2), replace=False)})
fmts = [('.msh', {'file_format': 'gmsh'}), ('.msh', {'file_format': 'gmsh22'}), ('.vtk', {}), ('.vtu', {})]
for cls, nref in [(MeshTri, 1), (MeshQuad, 1), (MeshTet, 1), (MeshHex, 1), (MeshTri2, 0), (MeshQuad2, 0), (MeshTet2, 0), (MeshHex2, 0)]:
    m = mk(cls, nref)
    res = []
    for suf, kw in fmts:
        with tempfile.TemporaryDirectory() as d:
            fn = os.path.join(d, 'm' + suf)
            try:
                m.save(fn, point_data={'foo': m.p[0].copy()}, **kw)
                out = ['point_data']
                M = Mesh.load(fn, out=out)
                ok = (type(M) is type(m), np.array_equal(M.p, m.p), np.array_equal(M.t, m.t), tagset(M) == tagset(m), np.array_equal(out[0]['foo'], m.p[0]))
                res.append(''.join('Y' if o else 'N' for o in ok))
            except Exception as ex:
                res.append('EXC:' + type(ex).__name__ + ':' + str(ex)[:40])
    print(cls.__name__, res)
# json / dict / npz for first-order
for cls in [MeshLine1, MeshTri, MeshQuad, MeshTet, MeshHex]:
    m = mk(cls, 1) if cls is not MeshLine1 else MeshLine(np.array([0,.3,.5,1.])).with_subdomains({'s1': np.array([0,2])}).with_boundaries({'bnd': np.array([0])})
    with tempfile.TemporaryDirectory() as d:
        fn = os.path.join(d, 'm.json'); jto(m, fn); M = jfrom(fn)
        r1 = (type(M) is type(m), np.array_equal(M.p, m.p), np.array_equal(M.t, m.t), tagset(M) == tagset(m))
        fn = os.path.join(d, 'm.npz'); m.save_npz(fn); M = cls.load_npz(fn)
        r2 = (type(M) is type(m), np.array_equal(M.p, m.p), np.array_equal(M.t, m.t), tagset(M) == tagset(m))
    print(cls.__name__, 'json', r1, 'npz', r2)
