import numpy as np, warnings, logging, itertools
warnings.filterwarnings('ignore'); logging.getLogger('skfem').setLevel(logging.ERROR)
from skfem.element import *
from skfem.quadrature import get_quadrature
from skfem.refdom import *
def facet_pts(refdom, loc, order=4):
    P = refdom.p[:, loc]  # d x nv
    d = refdom.dim()
    if len(loc) == 2 and d == 2:
        X, W = get_quadrature(RefLine, order); pts = P[:, :1] + (P[:, 1:2] - P[:, :1]) * X; meas = np.linalg.norm(P[:, 1] - P[:, 0]); return pts, W * meas, None
    if len(loc) == 3:
        X, W = get_quadrature(RefTri, order); pts = P[:, :1] + (P[:, 1:2] - P[:, :1]) * X[0] + (P[:, 2:3] - P[:, :1]) * X[1]
        n = np.cross(P[:, 1] - P[:, 0], P[:, 2] - P[:, 0]); return pts, W * np.linalg.norm(n), n / np.linalg.norm(n)
    if len(loc) == 4:
        X, W = get_quadrature(RefQuad, order); a, b, c, d_ = [P[:, k:k+1] for k in range(4)]
        pts = a*(1-X[0])*(1-X[1]) + b*X[0]*(1-X[1]) + c*X[0]*X[1] + d_*(1-X[0])*X[1]
        n = np.cross(P[:, 1] - P[:, 0], P[:, 3] - P[:, 0]); return pts, W * np.linalg.norm(n), n / np.linalg.norm(n)
def outward(refdom, loc, n):
    c = refdom.p.mean(1); f = refdom.p[:, loc].mean(1)
    return n if np.dot(n, f - c) > 0 else -n
for E in [ElementTriRT1, ElementQuadRT1, ElementTetRT1, ElementHexRT1]:
    e = E(); rd = e.refdom; nf = rd.nfacets; D = np.zeros((nf, nf))
    for f, loc in enumerate(rd.facets):
        pts, W, n = facet_pts(rd, loc)
        if n is None:
            t = rd.p[:, loc[1]] - rd.p[:, loc[0]]; n = np.array([t[1], -t[0]]) / np.linalg.norm(t)
        n = outward(rd, loc, n)
        for i in range(nf):
            phi = np.array(e.lbasis(pts, i)[0]); D[f, i] = np.sum(W * (n[:, None] * phi).sum(0))
    print(E.__name__, 'flux duality |D| - I: %.1e' % np.abs(np.abs(D) - np.eye(nf)).max(), 'signs', np.sign(np.diag(D)).astype(int))
for E in [ElementTriN1, ElementQuadN1, ElementTetN1]:
    e = E(); rd = e.refdom; edges = rd.edges if rd.dim() == 3 else rd.facets; ne = len(edges); D = np.zeros((ne, ne))
    for k, (a, b) in enumerate(edges):
        X, W = get_quadrature(RefLine, 4); A = rd.p[:, a:a+1]; B = rd.p[:, b:b+1]; pts = A + (B - A) * X; t = (B - A)[:, 0]
        for i in range(ne):
            phi = np.array(e.lbasis(pts, i)[0]); D[k, i] = np.sum(W * (t[:, None] * phi).sum(0))
    print(E.__name__, 'circulation duality |D| - I: %.1e' % np.abs(np.abs(D) - np.eye(ne)).max(), 'signs (t1->t2)', np.sign(np.diag(D)).astype(int))
# partition of unity for pure Lagrange
rng = np.random.default_rng(1)
for E in [ElementLineP1, ElementLineP2, ElementTriP1, ElementTriP2, ElementTriP3, ElementTriP4, ElementQuad1, ElementQuad2, ElementQuadS2, ElementTetP1, ElementTetP2, ElementHex1, ElementHex2, ElementHexS2, ElementWedge1, ElementTriP0, ElementQuad0, ElementTetP0, ElementHex0, ElementLineP0]:
    e = E(); d = e.refdom.dim(); X = rng.random((d, 6)) / d; nb = int(e._bfun_counts().sum())
    s = sum(np.array(e.lbasis(X, i)[0]) for i in range(nb)); g = sum(np.array(e.lbasis(X, i)[1]) for i in range(nb))
    print(E.__name__, 'PoU %.1e grad-sum %.1e' % (np.abs(s - 1).max(), np.abs(g).max()), end=' | ')
print()
