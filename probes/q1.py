"""C12/C13 probe: geometric validity oracle for refinement (2-D/3-D simplices, quads, hexes, lines)."""
import numpy as np, warnings, logging, itertools
warnings.filterwarnings('ignore'); logging.getLogger('skfem').setLevel(logging.ERROR)
from skfem import *
from scipy.spatial import Delaunay
rng = np.random.default_rng(21)

def simplex_vol(P):  # P: (d, d+1)
    d = P.shape[0]
    return abs(np.linalg.det(P[:, 1:] - P[:, :1])) / [1, 1, 2, 6][d]
def cell_measures(m):
    d = m.dim(); nm = type(m).__name__
    if nm.startswith(('MeshTri', 'MeshTet', 'MeshLine')):
        return np.array([simplex_vol(m.p[:, m.t[:, c]]) for c in range(m.nelements)])
    if nm.startswith('MeshQuad'):
        return np.array([simplex_vol(m.p[:, m.t[[0,1,3], c]]) + simplex_vol(m.p[:, m.t[[1,2,3], c]]) for c in range(m.nelements)])
    if nm.startswith('MeshHex'):
        tt = MeshHex1(m.p[:, :m.nvertices] if False else m.p, m.t).to_meshtet()
        v = np.array([simplex_vol(tt.p[:, tt.t[:, c]]) for c in range(tt.nelements)])
        return v.reshape(6, -1).sum(0)
def facet_measure(m, f):
    P = m.p[:, m.facets[:, f]]; d = m.dim()
    if d == 1: return 1.0
    if d == 2: return np.linalg.norm(P[:, 1] - P[:, 0])
    if P.shape[1] == 3: return 0.5*np.linalg.norm(np.cross(P[:,1]-P[:,0], P[:,2]-P[:,0]))
    return 0.5*np.linalg.norm(np.cross(P[:,1]-P[:,0], P[:,3]-P[:,0])) + 0.5*np.linalg.norm(np.cross(P[:,1]-P[:,2], P[:,3]-P[:,2]))
def topo_f2t(m):
    fac = {}
    for c in range(m.nelements):
        for loc in m.elem.refdom.facets:
            fac.setdefault(frozenset(int(m.t[i, c]) for i in loc), []).append(c)
    return fac
def simplices_of(m):
    nm = type(m).__name__
    if nm.startswith('MeshQuad'): return [[0,1,3],[1,2,3]]
    if nm.startswith('MeshHex'): return [[0,1,3,4],[0,3,2,4],[2,3,4,6],[3,4,6,7],[3,4,5,7],[1,3,4,5]]
    return [list(range(m.t.shape[0]))]
def locate(m, x, tol=1e-9):
    """all cells of m (first-order vertices) whose closed hull contains x"""
    out = []
    for c in range(m.nelements):
        for s in simplices_of(m):
            P = m.p[:, m.t[s, c]]
            lam = np.linalg.solve(P[:, 1:] - P[:, :1], x - P[:, 0])
            if lam.min() > -tol and lam.sum() < 1 + tol: out.append(c); break
    return out
def validity(old, new, marked=None, uniform=True):
    errs = []
    d = old.dim()
    P = new.p[:, :new.nvertices] if new.p.shape[1] > new.nvertices else new.p
    # duplicate / unused vertices
    if len({tuple(c) for c in new.p.T}) != new.p.shape[1]: errs.append('duplicate vertices')
    if len(np.unique(new.t)) != new.nvertices or new.t.max() + 1 != len(np.unique(new.t)): errs.append('unused vertices')
    vol_new = cell_measures(new); vol_old = cell_measures(old)
    if vol_new.min() <= 1e-14 * vol_old.max(): errs.append('degenerate cell')
    if abs(vol_new.sum() - vol_old.sum()) > 1e-10 * vol_old.sum(): errs.append('measure %r vs %r' % (vol_new.sum(), vol_old.sum()))
    if uniform and new.nelements != 2**d * old.nelements: errs.append('count')
    fac = topo_f2t(new)
    if max(len(v) for v in fac.values()) > 2: errs.append('facet with >2 cells')
    bm_new = sum(facet_measure(new, f) for f in range(new.nfacets) if len(fac[frozenset(map(int, new.facets[:, f]))]) == 1)
    fo = topo_f2t(old)
    bm_old = sum(facet_measure(old, f) for f in range(old.nfacets) if len(fo[frozenset(map(int, old.facets[:, f]))]) == 1)
    if abs(bm_new - bm_old) > 1e-10 * bm_old: errs.append('boundary measure %r vs %r (hanging node?)' % (bm_new, bm_old))
    nv = old.nvertices
    if not np.array_equal(new.p[:, :nv], old.p[:, :nv]): errs.append('old vertices moved')
    # nestedness + parent map
    parent = np.full(new.nelements, -1)
    for c in range(new.nelements):
        cen = new.p[:, new.t[:, c]].mean(1)
        cand = locate(old, cen)
        ok = [k for k in cand if all(k in locate(old, new.p[:, v]) for v in new.t[:, c])]
        if not ok: errs.append('cell %d not nested' % c); break
        parent[c] = ok[0]
    if marked is not None and parent.min() >= 0:
        for k in marked:
            if (parent == k).sum() < 2: errs.append('marked %d not split' % k)
    return errs, parent
def check_tags(old, new, parent):
    errs = []
    for name, ix in (old.subdomains or {}).items():
        if new.subdomains is None or name not in new.subdomains: errs.append('subdomain %s dropped' % name); continue
        exp = set(np.nonzero(np.isin(parent, ix))[0].tolist()); got = set(np.asarray(new.subdomains[name]).tolist())
        if exp != got: errs.append('subdomain %s wrong: missing %d extra %d' % (name, len(exp - got), len(got - exp)))
    if old.boundaries is not None and new.boundaries is not None:
        for name, ix in old.boundaries.items():
            if name not in new.boundaries: errs.append('boundary %s missing' % name); continue
            mo = sum(facet_measure(old, f) for f in ix); mn = sum(facet_measure(new, f) for f in new.boundaries[name])
            if abs(mo - mn) > 1e-10 * max(mo, 1e-300): errs.append('boundary %s measure %r vs %r' % (name, mn, mo))
            # each new facet's midpoint lies on an old tagged facet: check via vertex sets: midpoint in hull of an old facet
            for f in new.boundaries[name]:
                mid = new.p[:, new.facets[:, f]].mean(1)
                hit = False
                for g in ix:
                    Q = old.p[:, old.facets[:, g]]
                    if old.dim() == 1: hit |= np.allclose(mid, Q[:, 0])
                    else:
                        A = Q[:, 1:] - Q[:, :1]; lam, res, *_ = np.linalg.lstsq(A, mid - Q[:, 0], rcond=None)
                        r = np.linalg.norm(A @ lam - (mid - Q[:, 0]))
                        if Q.shape[1] == 4: hit |= r < 1e-9 and lam.min() > -1e-9   # quad facet: loose
                        else: hit |= r < 1e-9 and lam.min() > -1e-9 and lam.sum() < 1 + 1e-9
                if not hit: errs.append('boundary %s: new facet %d not on old tagged facets' % (name, f)); break
    return errs
def rand_tags(m):
    S = rng.choice(m.nelements, max(1, m.nelements // 3), replace=False)
    F = rng.choice(m.nfacets, max(1, m.nfacets // 3), replace=False)
    return m.with_subdomains({'s': S}).with_boundaries({'b': F})
def renum(m, cls):
    vp = rng.permutation(m.nvertices); return cls(m.p[:, vp], np.argsort(vp)[m.t][:, rng.permutation(m.nelements)])

if __name__ == '__main__':
    import sys
    # ---- C12 uniform
    cases = []
    p = rng.random((2, 8)); cases.append(('tri-delaunay', MeshTri(p, Delaunay(p.T).simplices.T)))
    cases.append(('quad', renum(MeshQuad().refined(1), MeshQuad)))
    p3 = rng.random((3, 7)); cases.append(('tet-delaunay', MeshTet(p3, Delaunay(p3.T).simplices.T)))
    cases.append(('tet-default', MeshTet()))
    cases.append(('hex', renum(MeshHex().refined(1), MeshHex)))
    cases.append(('line', MeshLine(np.array([0., .7, .2, 1.]))))
    cases.append(('tri2', MeshTri2.from_mesh(MeshTri.init_symmetric())))
    cases.append(('quad2', MeshQuad2.from_mesh(MeshQuad().refined(1))))
    cases.append(('tet2', MeshTet2.from_mesh(MeshTet())))
    cases.append(('hex2', MeshHex2.from_mesh(MeshHex().refined(1))))
    for name, m in cases:
        mt = rand_tags(m)
        import io
        h = logging.StreamHandler(io.StringIO()); lg = logging.getLogger('skfem.mesh.mesh'); lg.addHandler(h); lg.setLevel(logging.WARNING)
        new = mt.refined()
        logs = h.stream.getvalue().strip().replace('\n', ' | '); lg.removeHandler(h)
        e, parent = validity(m, new)
        te = check_tags(mt, new, parent) if parent.min() >= 0 else ['(no parent map)']
        print(name, 'geom:', e or 'ok', 'tags:', te or 'ok', '| boundaries kept:', new.boundaries is not None, '| log:', logs or '-')
