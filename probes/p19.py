import numpy as np, warnings, logging
warnings.filterwarnings('ignore'); logging.getLogger('skfem').setLevel(logging.ERROR)
from skfem import *
from skfem.io.meshio import to_meshio, from_meshio
for cls in [MeshQuad2, MeshHex2, MeshQuad, MeshTri2]:
    m = cls().with_boundaries({'b': np.array([0, 2])}).with_subdomains({'s': np.array([0])})
    M = from_meshio(to_meshio(m))
    print(cls.__name__, M.boundaries, M.subdomains, '| cell_data keys', list(to_meshio(m).cell_data.keys()), 'cells', [ (c.type, c.data.shape) for c in to_meshio(m).cells])
