import numpy as np, warnings, logging
logging.basicConfig(level=logging.DEBUG)
from skfem import *
m1 = MeshTri.init_symmetric()
md = MeshTri(np.hstack((m1.p, m1.p[:, :2])), np.hstack((m1.t[:, :2], np.array([[5],[6],[4]]))), validate=False)
r = md.remove_duplicate_nodes()
print(r.p, r.t, r.p.dtype, r.t.dtype)
print(r.is_valid())
# simpler: test from test-suite
m = MeshTri(); mm = MeshTri(np.hstack((m.p, m.p)), np.hstack((m.t, m.t + 4)), validate=False)
r2 = mm.remove_duplicate_nodes(); print(r2.p.shape, r2.t, r2.is_valid())
