import numpy as np, warnings, logging
warnings.filterwarnings('ignore'); logging.getLogger('skfem').setLevel(logging.ERROR)
from skfem import *
m = MeshTet().refined(1)
E = ElementTetN1() * ElementTetRT1()
b = Basis(m, E)
print(E.dofnames)
D = b.get_dofs()
print('edge dict keys', list(D.edge.keys()), 'facet dict keys', list(D.facet.keys()))
a = D.all('u^n^2'); 
print('all(u^n^2) subset of facet dofs?', np.isin(a, b.facet_dofs).all(), 'subset of edge dofs?', np.isin(a, b.edge_dofs).all(), len(a))
a = D.all('u^t^1'); print('all(u^t^1) in edge?', np.isin(a, b.edge_dofs).all(), 'in facet?', np.isin(a, b.facet_dofs).all(), len(a))
# skip
D2 = b.get_dofs(skip=['u^n^2']); print('skip u^n^2 leaves facet dofs?', np.isin(b.facet_dofs[:, m.boundary_facets()].flatten(), D2.flatten()).any(), 'edge dofs?', np.isin(b.edge_dofs[:, m.boundary_edges()].flatten(), D2.flatten()).any())
# DG wrapper of Hex2-like with edge+facet: names all u. Try ElementDG(ElementTetCCR)
print(ElementDG(ElementTetCCR()).dofnames[:6])
