import numpy as np, warnings, itertools
warnings.filterwarnings('ignore')
from skfem import *
from skfem.helpers import *
from scipy.spatial import Delaunay
rng = np.random.default_rng(6)
def ref_tables(m):
    rd = m.elem.refdom
    t = m.t
    fac = {}
    for c in range(t.shape[1]):
        for s, loc in enumerate(rd.facets):
            key = frozenset(int(t[i, c]) for i in loc)
            fac.setdefault(key, []).append(c)
    return fac
def check11(m):
    fac = ref_tables(m)
    ok = True
    ok &= m.facets.shape[1] == len(fac)
    keys = [frozenset(map(int, m.facets[:, f])) for f in range(m.nfacets)]
    ok &= len(set(keys)) == len(keys) and set(keys) == set(fac)
    rd = m.elem.refdom
    for c in range(m.nelements):
        for s, loc in enumerate(rd.facets):
            ok &= keys[m.t2f[s, c]] == frozenset(int(m.t[i, c]) for i in loc)
    for f, k in enumerate(keys):
        cells = fac[k]
        a, b = m.f2t[:, f]
        ok &= ({int(a), int(b)} - {-1}) == set(cells) and (b == -1) == (len(cells) == 1)
    return ok
p = rng.random((3, 12)); mt = MeshTet(p, Delaunay(p.T).simplices.T)
vp = rng.permutation(12); mt2 = MeshTet(p[:, vp], np.argsort(vp)[mt.t][:, rng.permutation(mt.nelements)])
print('C11 tet', check11(mt), check11(mt2), 'hex', check11(MeshHex().refined(1)), 'wedge', check11(MeshWedge1()), 'quad', check11(MeshQuad().refined(2)))
# boundary edges 3D vs reference
def bnd_edges_ref(m):
    be = set()
    for f in m.boundary_facets():
        vs = m.facets[:, f]
        n = len(vs)
        if n == 3: pairs = itertools.combinations(vs, 2)
        else: pairs = [(vs[i], vs[(i+1)%n]) for i in range(n)]
        for a, b in pairs: be.add(frozenset((int(a), int(b))))
    return be
for m in [mt, mt2, MeshHex().refined(1)]:
    got = {frozenset(map(int, m.edges[:, e])) for e in m.boundary_edges()}
    print('bnd edges', got == bnd_edges_ref(m), len(got))
# C07 semantic: trace depends on no DOF outside get_dofs(facets)
def check07(m, e, kind='h1'):
    F = rng.choice(m.nfacets, 4, replace=False)
    b = Basis(m, e)
    D = b.get_dofs(F).flatten()
    bnd = np.array([f for f in F])
    # trace on both sides when interior
    worst = 0
    for side in [0, 1]:
        FF = np.array([f for f in F if side == 0 or m.f2t[1, f] != -1])
        if len(FF) == 0: continue
        fb = FacetBasis(m, e, facets=FF, side=side)
        x = rng.standard_normal(b.N); x[D] = 0
        u = fb.interpolate(x); n = fb.normals
        if kind == 'h1': val = np.abs(np.array(u)).max()
        elif kind == 'hdiv': val = np.abs(dot(u, n)).max()
        elif kind == 'hcurl': val = np.abs(cross(np.array(u), np.array(n))).max()
        worst = max(worst, val)
    return worst
print('C07 tet', [ '%.1e' % check07(mt, e, k) for e, k in [(ElementTetP1(),'h1'),(ElementTetP2(),'h1'),(ElementTetCCR(),'h1'),(ElementTetRT1(),'hdiv'),(ElementTetN1(),'hcurl')]])
mh = MeshHex().refined(1)
print('C07 hex', [ '%.1e' % check07(mh, e, k) for e, k in [(ElementHex1(),'h1'),(ElementHex2(),'h1'),(ElementHexS2(),'h1'),(ElementHexRT1(),'hdiv')]])
