import numpy as np, warnings, logging
warnings.filterwarnings('ignore'); logging.getLogger('skfem').setLevel(logging.ERROR)
from skfem import *
from skfem.helpers import *
from scipy.spatial import Delaunay
rng = np.random.default_rng(16)
p = rng.random((2, 10)); m = MeshTri(p, Delaunay(p.T).simplices.T)
p3 = rng.random((3, 8)); mT = MeshTet(p3, Delaunay(p3.T).simplices.T)
def comp_check(m, elems):
    E = ElementComposite(*[e() for e in elems])
    b = Basis(m, E, intorder=4)
    x = rng.standard_normal(b.N)
    whole = b.interpolate(x)
    parts = b.split(x)
    err = 0
    for k, (xk, bk) in enumerate(parts):
        uk = bk.interpolate(xk)
        err = max(err, np.abs(np.array(uk) - np.array(whole[k])).max())
        for a in ['grad', 'div', 'curl']:
            if getattr(uk, a) is not None: err = max(err, np.abs(getattr(uk, a) - getattr(whole[k], a)).max())
    # block check: mass-like coupling c_ab * inner(u_a-ish, v_b) only for same tensor order; use sum over scalarised: value contracted to scalar via sum of components
    sc = lambda f: np.array(f) if np.array(f).ndim == 2 else np.array(f).sum(0)
    n = len(elems); C = rng.integers(1, 5, (n, n)).astype(float)
    def form(*args):
        us = args[:n]; vs = args[n:2*n]; w = args[-1]
        return sum(C[a, bb] * sc(us[a]) * sc(vs[bb]) * (1 + w.x[0]) for a in range(n) for bb in range(n))
    S = BilinearForm(form).assemble(b)
    ix = b.split_indices(); bs = [Basis(m, e(), intorder=4) for e in elems]
    berr = 0
    for a in range(n):
        for bb in range(n):
            Aab = BilinearForm(lambda u, v, w: C[a, bb] * sc(u) * sc(v) * (1 + w.x[0])).assemble(bs[a], bs[bb])
            berr = max(berr, np.abs(S[ix[bb]][:, ix[a]] - Aab).max())
    # DOF gap-free
    gap = np.array_equal(np.unique(b.element_dofs), np.arange(b.N))
    return '%.1e' % err, '%.1e' % berr, gap
print(comp_check(m, [ElementTriP2, ElementTriP1]))
print(comp_check(m, [ElementTriP1, ElementTriP3, ElementTriP0]))
print(comp_check(m, [ElementTriRT1, ElementTriP0]))
print(comp_check(m, [ElementTriMini, ElementTriRT2, ElementTriP2]))
print(comp_check(m, [lambda: ElementVector(ElementTriP2()), ElementTriP1]))
print(comp_check(mT, [ElementTetP2, ElementTetN1, ElementTetRT1, ElementTetP0]))
print(comp_check(mT, [ElementTetCCR, ElementTetP1]))
print(comp_check(MeshHex().refined(1), [ElementHex2, ElementHex1, ElementHexRT1]))
# ElementVector split
b = Basis(m, ElementVector(ElementTriP2())); x = rng.standard_normal(b.N); whole = np.array(b.interpolate(x))
for k, (xk, bk) in enumerate(b.split(x)): print('vec comp', k, '%.1e' % np.abs(np.array(bk.interpolate(xk)) - whole[k]).max())
# asm over partition
parts = np.array_split(rng.permutation(m.nelements), 3)
bs = [Basis(m, ElementTriP2(), elements=pp) for pp in parts]
f = BilinearForm(lambda u, v, w: u.grad[0]*v*w.x[1])
print('partition sum %.1e' % np.abs(asm(f, bs) - f.assemble(Basis(m, ElementTriP2()))).max())
