import numpy as np, warnings
warnings.filterwarnings('ignore')
from skfem import *
from skfem.helpers import *
from scipy.spatial import Delaunay
rng = np.random.default_rng(1)

def rand_tri(n=12):
    p = rng.random((2, n))
    t = Delaunay(p.T).simplices.T
    # drop slivers
    m = MeshTri(p, t)
    return m
def rand_tet(n=10):
    p = rng.random((3, n))
    t = Delaunay(p.T).simplices.T
    return MeshTet(p, t)

def jiggle(m, s=0.1):
    p = m.p.copy()
    I = m.interior_nodes()
    p[:, I] += s * (rng.random((p.shape[0], len(I))) - .5) * m.param()
    return type(m)(p, m.t)

# C03: continuity across interior facets
def check_cont(m, e, kind):
    b0 = InteriorFacetBasis(m, e, side=0)
    b1 = InteriorFacetBasis(m, e, side=1)
    x = rng.standard_normal(b0.N)
    u0 = b0.interpolate(x); u1 = b1.interpolate(x)
    n = b0.normals
    if kind == 'h1':
        d = np.abs(np.array(u0) - np.array(u1)).max()
    elif kind == 'hdiv':
        d = np.abs(dot(u0, n) - dot(u1, n)).max()
    elif kind == 'hcurl':
        if m.dim() == 2:
            t = np.array([-n[1], n[0]])
            d = np.abs(dot(u0, t) - dot(u1, t)).max()
        else:
            d = np.abs(cross(np.array(u0), np.array(n)) - cross(np.array(u1), np.array(n))).max()
    return d

mt = rand_tri(); mT = rand_tet(8)
mq = jiggle(MeshQuad().refined(2)); mh = jiggle(MeshHex().refined(1), .05)
tests = [
 (mt, ElementTriP1(), 'h1'), (mt, ElementTriP2(), 'h1'), (mt, ElementTriP3(), 'h1'), (mt, ElementTriP4(), 'h1'),
 (mt, ElementTriRT1(), 'hdiv'), (mt, ElementTriRT2(), 'hdiv'), (mt, ElementTriBDM1(), 'hdiv'),
 (mt, ElementTriN1(), 'hcurl'), (mt, ElementTriN2(), 'hcurl'), (mt, ElementTriN3(), 'hcurl'),
 (mt, ElementTriMini(), 'h1'), (mt, ElementTriCCR(), 'h1'),
 (mq, ElementQuad1(), 'h1'), (mq, ElementQuad2(), 'h1'), (mq, ElementQuadS2(), 'h1'), (mq, ElementQuadP(3), 'h1'), (mq, ElementQuadP(4), 'h1'),
 (mq, ElementQuadRT1(), 'hdiv'), (mq, ElementQuadN1(), 'hcurl'),
 (mT, ElementTetP1(), 'h1'), (mT, ElementTetP2(), 'h1'), (mT, ElementTetCCR(), 'h1'), (mT, ElementTetMini(), 'h1'),
 (mT, ElementTetRT1(), 'hdiv'), (mT, ElementTetN1(), 'hcurl'),
 (mh, ElementHex1(), 'h1'), (mh, ElementHex2(), 'h1'), (mh, ElementHexS2(), 'h1'), (mh, ElementHexRT1(), 'hdiv'),
]
for m, e, k in tests:
    try:
        print(type(m).__name__, type(e).__name__, k, '%.2e' % check_cont(m, e, k))
    except Exception as ex:
        print(type(m).__name__, type(e).__name__, 'EXC', repr(ex)[:100])
