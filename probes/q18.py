"""C15 soundness probe: pooled objects vs freshly rebuilt objects give bit-identical results (avoiding the 4 known hazards)."""
import numpy as np, warnings, logging, hashlib
warnings.filterwarnings('ignore'); logging.getLogger('skfem').setLevel(logging.ERROR)
from skfem import *
from skfem.helpers import *
from scipy.spatial import Delaunay
rng = np.random.default_rng(42)
def mk_meshes():
    r = np.random.default_rng(7)
    p = r.random((2, 12)); p3 = r.random((3, 8))
    return {'tri': MeshTri(p, Delaunay(p.T).simplices.T), 'quad': MeshQuad().refined(2).translated((.1, .2)), 'tet': MeshTet(p3, Delaunay(p3.T).simplices.T), 'hex': MeshHex().refined(1), 'tri2': MeshTri2.init_circle(1)}
ELEMS = {'tri': [ElementTriP2, ElementTriRT1, ElementTriN1, lambda: ElementVector(ElementTriP1())], 'quad': [ElementQuad2, ElementQuadRT1, lambda: ElementQuadP(3)], 'tet': [ElementTetP2, ElementTetN1], 'hex': [ElementHex2, ElementHex1], 'tri2': [ElementTriP2, ElementTriP1]}
def H(a):
    if isinstance(a, tuple): return tuple(H(x) for x in a)
    if hasattr(a, 'toarray'): a = a.tocsr(); a.sort_indices(); return hashlib.sha256(a.data.tobytes() + a.indices.tobytes() + a.indptr.tobytes()).hexdigest()[:10]
    a = np.asarray(a); return hashlib.sha256(a.tobytes() + str(a.shape).encode()).hexdigest()[:10]
form = BilinearForm(lambda u, v, w: (np.array(u) if np.array(u).ndim == 2 else np.array(u)[0]) * (np.array(v) if np.array(v).ndim == 2 else np.array(v)[0]) * (1 + w.x[0]))
def ops(meshes, seq):
    out = []
    bases = {}
    for (mk, ek, kind, op) in seq:
        m = meshes[mk]; e = ELEMS[mk][ek]()
        key = (mk, ek, kind)
        if key not in bases:
            bases[key] = {'cell': lambda: Basis(m, e, intorder=3), 'facet': lambda: FacetBasis(m, e, intorder=3), 'ifacet': lambda: InteriorFacetBasis(m, e, intorder=3), 'sub': lambda: Basis(m, e, intorder=3, elements=np.array([2, 0, 1]))}[kind]()
        b = bases[key]
        if op == 'asm': out.append(H(form.assemble(b)))
        elif op == 'interp': out.append(H(np.array(b.interpolate(np.cos(np.arange(b.N))))))
        elif op == 'tables': out.append(H((m.facets, m.t2f, m.f2t, m.boundary_facets())))
        elif op == 'map':
            X = np.cos(np.arange(m.dim()*4)).reshape(m.dim(), 4)**2 / 3
            mp = m.mapping(); out.append(H((mp.F(X), mp.detDF(X), mp.invDF(X, np.array([1, 0])))))
        elif op == 'refine': out.append(H(m.refined().p))
        elif op == 'dofs': out.append(H(b.get_dofs().flatten()))
        elif op == 'finder' and mk in ('tri', 'quad', 'tet', 'hex'):
            x = m.p[:, m.t[:, [0, 2]]].mean(1); out.append(H(m.element_finder()(*x)))
    return out
kinds = ['cell', 'facet', 'ifacet', 'sub']; opsn = ['asm', 'interp', 'tables', 'map', 'refine', 'dofs', 'finder']
bad = 0
for trial in range(30):
    seq = []
    for _ in range(10):
        mk = rng.choice(list(ELEMS)); seq.append((mk, int(rng.integers(len(ELEMS[mk]))), str(rng.choice(kinds)), str(rng.choice(opsn))))
    pooled = ops(mk_meshes(), seq)
    fresh = []
    for k in range(len(seq)):
        fresh += ops(mk_meshes(), seq[k:k+1])   # each op on brand-new objects
    if pooled != fresh:
        bad += 1; print('DIFF', [(s, a, b) for s, a, b in zip(seq, pooled, fresh) if a != b][:2])
print('histories with a difference:', bad, 'of 30')
