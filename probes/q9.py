"""C02/C08 probe: exact rational polynomial integration oracle."""
import numpy as np, warnings, logging, itertools, math
from fractions import Fraction as Fr
warnings.filterwarnings('ignore'); logging.getLogger('skfem').setLevel(logging.ERROR)
from skfem import *
from skfem.quadrature import get_quadrature
from skfem.refdom import *
from scipy.spatial import Delaunay

class Poly(dict):
    """exponent tuple -> Fraction"""
    @staticmethod
    def const(c, d): return Poly({(0,)*d: Fr(c)})
    @staticmethod
    def var(k, d): return Poly({tuple(int(i == k) for i in range(d)): Fr(1)})
    def __add__(s, o):
        r = Poly(s)
        for e, c in o.items(): r[e] = r.get(e, 0) + c
        return Poly({e: c for e, c in r.items() if c != 0})
    def __mul__(s, o):
        if not isinstance(o, Poly): return Poly({e: c*Fr(o) for e, c in s.items()})
        r = {}
        for e1, c1 in s.items():
            for e2, c2 in o.items():
                e = tuple(a+b for a, b in zip(e1, e2)); r[e] = r.get(e, 0) + c1*c2
        return Poly({e: c for e, c in r.items() if c != 0})
    def __pow__(s, n):
        r = Poly.const(1, len(next(iter(s))) if s else 1)
        for _ in range(n): r = r * s
        return r
    def diff(s, k):
        return Poly({tuple(a - (i == k) for i, a in enumerate(e)): c*e[k] for e, c in s.items() if e[k] > 0})
def int_ref(poly, kind):
    tot = Fr(0)
    for e, c in poly.items():
        if kind == 'simplex':
            num = 1
            for a in e: num *= math.factorial(a)
            tot += c * Fr(num, math.factorial(sum(e) + len(e)))
        elif kind == 'box':
            v = Fr(1)
            for a in e: v *= Fr(1, a+1)
            tot += c * v
        elif kind == 'wedge':  # triangle in (x,y), z in [0,1]
            tot += c * Fr(math.factorial(e[0])*math.factorial(e[1]), math.factorial(e[0]+e[1]+2)) * Fr(1, e[2]+1)
    return tot
def monomial_on_simplex(V, alpha):
    """exact int_K x^alpha, K simplex with vertices V (d x (d+1)) floats; returns Fraction (unsigned)"""
    d = V.shape[0]
    Vf = [[Fr(float(V[i, j])) for j in range(d+1)] for i in range(d)]
    # x_i = v0_i + sum_j (vj_i - v0_i) X_j
    xs = []
    for i in range(d):
        pz = Poly.const(Vf[i][0], d)
        for j in range(d): pz = pz + Poly.var(j, d) * (Vf[i][j+1] - Vf[i][0])
        xs.append(pz)
    f = Poly.const(1, d)
    for i in range(d): f = f * (xs[i] ** alpha[i])
    # det
    A = [[Vf[i][j+1] - Vf[i][0] for j in range(d)] for i in range(d)]
    if d == 1: det = A[0][0]
    elif d == 2: det = A[0][0]*A[1][1] - A[0][1]*A[1][0]
    else: det = (A[0][0]*(A[1][1]*A[2][2]-A[1][2]*A[2][1]) - A[0][1]*(A[1][0]*A[2][2]-A[1][2]*A[2][0]) + A[0][2]*(A[1][0]*A[2][1]-A[1][1]*A[2][0]))
    return int_ref(f, 'simplex') * abs(det)

if __name__ == '__main__':
    rng = np.random.default_rng(29)
    # ---- C08 exhaustive small
    worst = {}
    for refdom, kind, orders in [(RefLine, 'box', range(0, 12)), (RefTri, 'simplex', range(0, 20)), (RefTet, 'simplex', range(0, 10)), (RefQuad, 'box', range(0, 9)), (RefHex, 'box', range(0, 7)), (RefWedge, 'wedge', range(0, 6))]:
        d = refdom.dim(); w = 0; bad = []
        for n in orders:
            X, W = get_quadrature(refdom, n)
            if kind == 'simplex': exps = [e for e in itertools.product(range(n+1), repeat=d) if sum(e) <= n]
            elif kind == 'box': exps = list(itertools.product(range(n+1), repeat=d))
            else: exps = [e for e in itertools.product(range(n+1), repeat=3) if e[0]+e[1] <= n]
            for e in exps:
                got = float(np.sum(W * np.prod([X[k]**e[k] for k in range(d)], axis=0)))
                ex = float(int_ref(Poly({e: Fr(1)}), kind))
                err = abs(got - ex) / max(abs(ex), 1e-300) if ex else abs(got)
                w = max(w, err)
                if err > 1e-12 and len(bad) < 3: bad.append((n, e, got, ex))
        print(refdom.__name__, 'worst rel err %.1e' % w, bad)
    # out of table
    for refdom, n in [(RefTri, 20), (RefTet, 10), (RefTri, 25)]:
        try: get_quadrature(refdom, n); print(refdom.__name__, n, 'RETURNED')
        except Exception as ex: print(refdom.__name__, n, 'raises', type(ex).__name__)
    # ---- C02: functional of monomials on Delaunay tri/tet (+ subset)
    p = rng.integers(-8, 9, (2, 10)) / 4.; p = np.unique(p, axis=1); m = MeshTri(p, Delaunay(p.T).simplices.T)
    sub = rng.choice(m.nelements, m.nelements//2, replace=False)
    w = 0
    for alpha in [(0,0), (1,0), (2,1), (3,3), (0,5), (4,2)]:
        n = sum(alpha)
        b = Basis(m, ElementTriP1(), intorder=max(n, 2), elements=sub)
        got = Functional(lambda w_: w_.x[0]**alpha[0] * w_.x[1]**alpha[1]).elemental(b)
        ex = np.array([float(monomial_on_simplex(m.p[:, m.t[:, c]], alpha)) for c in sub])
        w = max(w, np.abs(got - ex).max() / (np.abs(ex).max() + 1e-300))
    print('tri subset monomials rel err %.1e' % w)
    p3 = rng.integers(-4, 5, (3, 9)) / 2.; p3 = np.unique(p3, axis=1); mT = MeshTet(p3, Delaunay(p3.T).simplices.T)
    vols = np.array([float(monomial_on_simplex(mT.p[:, mT.t[:, c]], (0,0,0))) for c in range(mT.nelements)])
    keep = np.nonzero(vols > 1e-9)[0]; mT = MeshTet(*MeshTet(p3, mT.t[:, keep]).remove_unused_nodes()) if len(keep) < mT.nelements else mT
    w = 0
    for alpha in [(0,0,0), (1,1,0), (2,0,2), (1,2,3)]:
        b = Basis(mT, ElementTetP1(), intorder=max(sum(alpha), 1))
        got = Functional(lambda w_: w_.x[0]**alpha[0] * w_.x[1]**alpha[1] * w_.x[2]**alpha[2]).elemental(b)
        ex = np.array([float(monomial_on_simplex(mT.p[:, mT.t[:, c]], alpha)) for c in range(mT.nelements)])
        w = max(w, np.abs(got - ex).max() / (np.abs(ex).max() + 1e-300))
    print('tet monomials rel err %.1e' % w)
    # facets of tets: int_f x^alpha ds = param integral * area
    fb = FacetBasis(mT, ElementTetP1(), intorder=4)
    alpha = (1, 2, 1)
    got = Functional(lambda w_: w_.x[0]**alpha[0] * w_.x[1]**alpha[1] * w_.x[2]**alpha[2]).elemental(fb)
    ex = []
    for f in fb.find:
        V = mT.p[:, mT.facets[:, f]]  # 3x3
        Vf = [[Fr(float(V[i, j])) for j in range(3)] for i in range(3)]
        xs = []
        for i in range(3):
            pz = Poly.const(Vf[i][0], 2)
            for j in range(2): pz = pz + Poly.var(j, 2) * (Vf[i][j+1] - Vf[i][0])
            xs.append(pz)
        f_ = Poly.const(1, 2)
        for i in range(3): f_ = f_ * (xs[i] ** alpha[i])
        a = [Vf[i][1]-Vf[i][0] for i in range(3)]; b_ = [Vf[i][2]-Vf[i][0] for i in range(3)]
        cr = [a[1]*b_[2]-a[2]*b_[1], a[2]*b_[0]-a[0]*b_[2], a[0]*b_[1]-a[1]*b_[0]]
        area2 = math.sqrt(float(sum(c*c for c in cr)))
        ex.append(float(int_ref(f_, 'simplex')) * area2)
    ex = np.array(ex)
    print('tet facet monomial rel err %.1e' % (np.abs(got - ex).max() / np.abs(ex).max()))
