import numpy as np, warnings, logging, threading, itertools
warnings.filterwarnings('ignore'); logging.getLogger('skfem').setLevel(logging.ERROR)
from skfem import *
m = MeshTri().refined(1)
ub = Basis(m, ElementTriP1(), intorder=2); vb = Basis(m, ElementTriP0(), intorder=2)   # Nu=3, Nv=1
uid = {id(ub.basis[j][0]): j for j in range(ub.Nbfun)}; vid = {id(vb.basis[i][0]): i for i in range(vb.Nbfun)}
class Sched:
    def __init__(self, order):   # order: list of worker names to release in turn (best effort)
        self.cv = threading.Condition(); self.waiting = {}; self.log = []; self.order = list(order); self.done = False
    def enter(self, ij):
        me = threading.current_thread().name
        with self.cv:
            self.waiting[me] = ij; self.cv.notify_all()
            while self.waiting.get(me) is not None: self.cv.wait()
    def run(self, nworkers_alive):
        # release according to order; if the preferred worker is not waiting and others are, wait a bit then take any
        while True:
            with self.cv:
                if self.done and not self.waiting: return
                if not self.waiting:
                    self.cv.wait(0.01); continue
                pick = None
                if self.order and self.order[0] in self.waiting: pick = self.order.pop(0)
                elif self.order and not nworkers_alive(self.order[0]): self.order.pop(0); continue
                elif not self.order: pick = sorted(self.waiting)[0]
                else:
                    self.cv.wait(0.005); continue
                self.log.append((pick, self.waiting[pick])); self.waiting[pick] = None; del self.waiting[pick]; self.cv.notify_all()
S = None
def form(u, v, w):
    S.enter((vid[id(v)], uid[id(u)]))
    return u.grad[0] * v
A0 = BilinearForm(lambda u, v, w: u.grad[0]*v).assemble(ub, vb).toarray()
import threading as th
for nth in [2, 3, 5]:
    # names of worker threads are assigned by threading: capture via log
    S = Sched(order=[])
    alive = lambda name: any(t.name == name and t.is_alive() for t in th.enumerate())
    st = th.Thread(target=S.run, args=(alive,)); st.start()
    A1 = BilinearForm(form, nthreads=nth).assemble(ub, vb).toarray()
    S.done = True
    with S.cv: S.cv.notify_all()
    st.join(5)
    print(nth, 'equal', np.array_equal(A0, A1), 'log', S.log)
