"""Round-0 analysis tool (NOT part of the verification framework).

Candidate mutants: small realistic edits of /repo/skfem that break one listed property.
This script answers one question only: *does the repository's own test suite notice?*
Mutants that survive the suite are the interesting ones for the sensitivity audit
(DESIGN.md section 7); mutants the suite already kills are dropped from the catalogue.

Usage:  /venv/bin/python mutants_round0.py check          # verify every `old` is unique
        /venv/bin/python mutants_round0.py run [ids...]   # run baseline suite per mutant
Scratch copies live under /var/tmp/vf-mut-* and are removed after each run.
"""
import json
import os
import shutil
import subprocess
import sys
import tempfile
from concurrent.futures import ThreadPoolExecutor

REPO = '/repo'
OUT = os.path.join(os.path.dirname(os.path.abspath(__file__)),
                   'mutants_round0_results.json')

M = []


def mut(mid, prop, path, old, new, note='', extra=()):
    # extra: further (old, new) pairs applied to the same file
    M.append(dict(id=mid, prop=prop, path=path, old=old, new=new, note=note,
                  extra=list(extra)))


# ---------------------------------------------------------------- C01
mut('c01_rowcol_swap', 'C01', 'skfem/assembly/form/bilinear_form.py',
    "                rows[ixs] = vbasis.element_dofs[i]\n"
    "                cols[ixs] = ubasis.element_dofs[j]\n",
    "                rows[ixs] = ubasis.element_dofs[j]\n"
    "                cols[ixs] = vbasis.element_dofs[i]\n",
    'rows index trial instead of test functions')
mut('c01_slice_nu', 'C01', 'skfem/assembly/form/bilinear_form.py',
    "                ixs = slice(nt * (vbasis.Nbfun * j + i),\n"
    "                            nt * (vbasis.Nbfun * j + i + 1))\n",
    "                ixs = slice(nt * (ubasis.Nbfun * j + i),\n"
    "                            nt * (ubasis.Nbfun * j + i + 1))\n",
    'slot arithmetic uses trial size (rectangular local matrices only)')
mut('c01_linear_kwargs_basis', 'C01', 'skfem/assembly/form/functional.py',
    "        return (self.form(w) * dx).sum(-1)",
    "        return (self.form(w) * np.abs(dx)).sum(-1)",
    'equivalent-looking; dx is already nonnegative (control: should be unkillable)')
mut('c01_normals_side', 'C01', 'skfem/assembly/basis/facet_basis.py',
    "            self.tind_normals = self.mesh.f2t[0, self.find]\n",
    "            self.tind_normals = self.tind\n",
    'w.n flips on side=1 interior facet bases')
mut('c01_interp_component', 'C01', 'skfem/assembly/basis/abstract_basis.py',
    "                    out += np.einsum('...,...j->...j', values,\n"
    "                                     self.basis[i][c].get(n))\n",
    "                    out += np.einsum('...,...j->...j', values,\n"
    "                                     self.basis[i][min(c, 1)].get(n))\n",
    'third and later composite components interpolate the second')
mut('c01_scalar_param', 'C01', 'skfem/assembly/form/form.py',
    "            elif isinstance(w[k], ndarray) and len(w[k].shape) > 1:\n"
    "                w[k] = DiscreteField(w[k])\n",
    "            elif isinstance(w[k], ndarray) and len(w[k].shape) > 1:\n"
    "                w[k] = DiscreteField(np.abs(w[k]))\n",
    'raw ndarray parameters lose their sign')

# ---------------------------------------------------------------- C02
mut('c02_default_order', 'C02', 'skfem/assembly/basis/abstract_basis.py',
    "                intorder if intorder is not None else 2 * self.elem.maxdeg\n",
    "                intorder if intorder is not None else 2 * self.elem.maxdeg - 1\n",
    'default rule one degree short')
mut('c02_facet_abs', 'C02', 'skfem/mapping/mapping_affine.py',
    "            self._detB = np.sqrt(self._B[0, 0] ** 2 + self._B[1, 0] ** 2)\n",
    "            self._detB = np.abs(self._B[0, 0]) + np.abs(self._B[1, 0])\n",
    '2-D facet length by 1-norm (exact on axis-parallel facets only)')
mut('c02_iso_detdg', 'C02', 'skfem/mapping/mapping_isoparametric.py',
    "            return np.sqrt(self.bndJ(0, 0, X, find) ** 2 +\n"
    "                           self.bndJ(1, 0, X, find) ** 2)\n",
    "            return np.maximum(np.abs(self.bndJ(0, 0, X, find)),\n"
    "                              np.abs(self.bndJ(1, 0, X, find)))\n",
    'quad facet length by max-norm (exact on axis-parallel facets only)')

# ---------------------------------------------------------------- C03
mut('c03_sort_t_default', 'C03', 'skfem/mesh/mesh_tri_1.py',
    "    sort_t: bool = True\n", "    sort_t: bool = False\n",
    'triangles no longer sorted per cell')
mut('c03_p3_swap_facet_dofs', 'C03', 'skfem/element/element_tri/element_tri_p3.py',
    "        elif i == 5:  # 1->2: (2/3,1/3)\n", "        elif i == 60:  # 1->2: (2/3,1/3)\n",
    'swap the two DOFs of local facet 1',
    extra=[("        elif i == 6:  # 1->2: (1/3,2/3)\n", "        elif i == 5:  # 1->2: (1/3,2/3)\n"),
           ("        elif i == 60:  # 1->2: (2/3,1/3)\n", "        elif i == 6:  # 1->2: (2/3,1/3)\n")])
mut('c03_hcurl_slot', 'C03', 'skfem/element/element_hcurl.py',
    "        ori = 1 - 2 * (mapping.mesh.t[t1] > mapping.mesh.t[t2])\n",
    "        ori = 1 - 2 * (mapping.mesh.t[t1] > mapping.mesh.t[t2])\n"
    "        if ix == 1:\n"
    "            ori = 1 - 2 * (mapping.mesh.t[t1] < mapping.mesh.t[t2])\n",
    'edge orientation rule reversed for local slot 1 only')
mut('c03_hdiv_bdm_dirs', 'C03', 'skfem/element/element_tri/element_tri_bdm1.py',
    "                        [s_2, 1. - s_2],\n                        [s_1, 1. - s_1],\n",
    "                        [s_1, 1. - s_1],\n                        [s_2, 1. - s_2],\n",
    'doflocs only (control: should not affect continuity)')

# ---------------------------------------------------------------- C04
mut('c04_dg_edges', 'C04', 'skfem/element/element_dg.py',
    "                              + elem.refdom.nedges * elem.edge_dofs\n", "",
    'DG wrapper forgets edge DOFs')
mut('c04_edge_offset', 'C04', 'skfem/assembly/dofs.py',
    "            offset += element.edge_dofs * topo.nedges\n", "            pass\n",
    'edge block offset not advanced: edge and facet numbers overlap')
mut('c04_facet_order_F', 'C04', 'skfem/assembly/dofs.py',
    "                (element.facet_dofs, topo.nfacets),\n                order='F') + offset\n",
    "                (element.facet_dofs, topo.nfacets),\n                order='C') + offset\n",
    'facet DOF table reshaped in C order (numbers still a permutation)')

# ---------------------------------------------------------------- C05
mut('c05_condense_sign', 'C05', 'skfem/utils.py',
    "            bout = b[I] - A[I][:, D] @ x[D]\n", "            bout = b[I] + A[I][:, D] @ x[D]\n",
    'lifting with wrong sign')
mut('c05_enforce_diag', 'C05', 'skfem/utils.py',
    "    d[D] = diag\n", "    d[D] = 1.\n", 'diag argument ignored')
mut('c05_penalize_rhs', 'C05', 'skfem/utils.py',
    "        bout[D] = x[D] / epsilon\n", "        bout[D] = x[D]\n", 'penalised rhs not scaled')
mut('c05_solve_mutates_x', 'C05', 'skfem/utils.py',
    "        y = x.copy()\n        if isinstance(I, tuple):\n            np.add.at(y, I[0], I[1](solver(A, b, **kwargs)))",
    "        y = x\n        if isinstance(I, tuple):\n            np.add.at(y, I[0], I[1](solver(A, b, **kwargs)))",
    'solve_linear writes into the caller\'s x')
mut('c05_enforce_nocopy', 'C05', 'skfem/utils.py',
    "    Aout = A if overwrite else A.copy()\n\n    # set rows on lhs to zero\n",
    "    Aout = A\n\n    # set rows on lhs to zero\n", 'enforce always overwrites A')
mut('c05_complement_cols', 'C05', 'skfem/utils.py',
    "        I = np.setdiff1d(np.arange(A.shape[0], dtype=np.int32), D)\n",
    "        I = np.setdiff1d(np.arange(A.shape[0] - 1, dtype=np.int32), D)\n",
    'complement misses the last index')

# ---------------------------------------------------------------- C06
mut('c06_facet_project_dofs', 'C06', 'skfem/assembly/basis/facet_basis.py',
    "        return solve(*condense(M, f, I=self.get_dofs(facets=self.find)))\n",
    "        return solve(*condense(M, f, I=self.get_dofs()))\n",
    'boundary projection always over the whole boundary')
mut('c06_cell_project_subset', 'C06', 'skfem/assembly/basis/cell_basis.py',
    "            return solve(*condense(M, f, I=self.get_dofs(elements=self.tind)))\n",
    "            return solve(*condense(M, f, D=self.get_dofs(elements=self.tind)))\n",
    'subset projection condenses the wrong set')
mut('c06_elasticity_trace', 'C06', 'skfem/models/elasticity.py',
    "        return 2. * Mu * T + Lambda * eye(trace(T), T.shape[0])\n",
    "        return 2. * Mu * T + Lambda * eye(T[0, 0], T.shape[0])\n",
    'volumetric term uses eps_11 instead of trace')

# ---------------------------------------------------------------- C07
mut('c07_no_edges', 'C07', 'skfem/mesh/mesh.py',
    "            edges = np.unique(self.f2e[:, ix])\n", "            edges = np.unique(self.f2e[:1, ix])\n",
    'facet -> edge expansion takes the first edge of each facet only')
mut('c07_complement', 'C07', 'skfem/assembly/basis/abstract_basis.py',
    "        return np.setdiff1d(np.arange(self.N), np.concatenate(D))\n",
    "        return np.setdiff1d(np.arange(self.N - 1), np.concatenate(D))\n",
    'complement misses the last DOF')
mut('c07_set_selector', 'C07', 'skfem/mesh/mesh.py',
    "        elif isinstance(facets, (tuple, list, set)):\n            # Recurse over the list, building an array of all matching facets\n            return np.unique(\n                np.concatenate(\n                    [self.normalize_facets(f) for f in facets]\n                )\n            )\n",
    "        elif isinstance(facets, (tuple, list, set)):\n            # Recurse over the list, building an array of all matching facets\n            return np.unique(\n                np.concatenate(\n                    [self.normalize_facets(f) for f in list(facets)[:2]]\n                )\n            )\n",
    'collections of more than two selectors are truncated')
mut('c07_elements_interior', 'C07', 'skfem/assembly/dofs.py',
    "        interior_ix = elements\n\n        if skip_dofnames is None:\n",
    "        interior_ix = elements[:-1]\n\n        if skip_dofnames is None:\n",
    'element query drops the interior DOFs of the last selected cell')

# ---------------------------------------------------------------- C08
mut('c08_line_floor', 'C08', 'skfem/quadrature.py',
    "    X, W = leggauss(int(np.ceil((norder + 1.0) / 2.0)))\n",
    "    X, W = leggauss(int(np.floor((norder + 1.0) / 2.0)))\n",
    'Gauss rule one point short for even orders')
mut('c08_tri_weight_digit', 'C08', 'skfem/quadrature.py',
    "                        [0.333333333333333, 0.2, 0.6, 0.2],\n",
    "                        [0.333333333333333, 0.2, 0.6, 0.21],\n",
    'one node of the order-3 triangle rule moved')
mut('c08_tet_clamp', 'C08', 'skfem/quadrature.py',
    "    if norder < 1:\n        norder = 1\n    try:\n",
    "    if norder < 1:\n        norder = 1\n    norder = min(norder, 9)\n    try:\n",
    'orders beyond the tetrahedron table silently return the order-9 rule')

# ---------------------------------------------------------------- C09
mut('c09_rt2_div', 'C09', 'skfem/element/element_tri/element_tri_rt2.py',
    "            dphi = -24*(-1 + x + 2*y)\n", "            dphi = -24*(-1 + 2*x + y)\n",
    'divergence of one RT2 interior function wrong')
mut('c09_n2_curl', 'C09', 'skfem/element/element_tri/element_tri_n2.py',
    "            dphi = 48*y+24*x-24\n", "            dphi = 24*y+48*x-24\n", 'curl of one N2 function wrong')
mut('c09_quads2_grad', 'C09', 'skfem/element/element_h1.py',
    "                grad=np.einsum('ijkl,ikl->jkl', invDF, dphi)\n",
    "                grad=np.einsum('jikl,ikl->jkl', invDF, dphi)\n",
    'per-cell-points path applies invDF instead of its transpose')
mut('c09_hcurl_curl_sign', 'C09', 'skfem/element/element_hcurl.py',
    "                    curl=dphi / detDF * orient[:, None],\n                ),)\n            elif len(X.shape) == 3:\n",
    "                    curl=dphi / np.abs(detDF) * orient[:, None],\n                ),)\n            elif len(X.shape) == 3:\n",
    '2-D curl scaled by |det| (wrong sign on mirrored cells), shared-points path')

# ---------------------------------------------------------------- C10
mut('c10_normals_tind', 'C10', 'skfem/mapping/mapping_affine.py',
    "        n = np.einsum('ijkl,ik->jkl', invDF, N)\n        nlength = np.sqrt(np.sum(n ** 2, axis=0))\n        return np.einsum('ijk,jk->ijk', n, 1. / nlength)\n",
    "        n = np.einsum('jikl,ik->jkl', invDF, N)\n        nlength = np.sqrt(np.sum(n ** 2, axis=0))\n        return np.einsum('ijk,jk->ijk', n, 1. / nlength)\n",
    'affine normals use invDF instead of its transpose (right on orthogonal cells)')
mut('c10_iso_invdf', 'C10', 'skfem/mapping/mapping_isoparametric.py',
    "            invDF[0, 1] = -J[0][1]\n            invDF[1, 0] = -J[1][0]\n",
    "            invDF[0, 1] = -J[1][0]\n            invDF[1, 0] = -J[0][1]\n",
    '2-D isoparametric inverse Jacobian transposed off-diagonal')
mut('c10_affine_F_tind', 'C10', 'skfem/mapping/mapping_affine.py',
    "        y = (x.T - b.T).T\n\n        return np.einsum('ijk,jkl->ikl', invA, y)\n",
    "        y = (x.T - b.T).T\n\n        return np.einsum('jik,jkl->ikl', invA, y)\n",
    'affine inverse map multiplies by the transpose')

# ---------------------------------------------------------------- C11
mut('c11_boundary_nodes', 'C11', 'skfem/mesh/mesh.py',
    "        return np.unique(self.facets[:, self.boundary_facets()])\n",
    "        return np.unique(self.facets[:-1, self.boundary_facets()])\n",
    'boundary nodes from all but the last vertex of each boundary facet')
mut('c11_f2t_last', 'C11', 'skfem/mesh/mesh.py',
    "        ix_last = e.shape[0] - ix_last - 1\n", "        ix_last = e.shape[0] - ix_last - 2\n",
    'second neighbour off by one slot')
mut('c11_interior_edges', 'C11', 'skfem/mesh/mesh_3d.py',
    "        edge_candidates = np.unique(self.t2e[:, self.f2t[0, facets]])\n",
    "        edge_candidates = np.unique(self.t2e[:3, self.f2t[0, facets]])\n",
    'boundary-edge candidates from the first three local edges only')

# ---------------------------------------------------------------- C12
mut('c12_tri_facetmap', 'C12', 'skfem/mesh/mesh_tri_1.py',
    "            new_facets[1, t2f[1]] = m.t2f[2, ix2]\n", "            new_facets[1, t2f[1]] = m.t2f[0, ix2]\n",
    'one child facet of parent facet slot 1 taken from the wrong side')
mut('c12_quad_facetmap', 'C12', 'skfem/mesh/mesh_quad_1.py',
    "            new_facets[1, t2f[2]] = m.t2f[2, ix3]\n", "            new_facets[1, t2f[2]] = m.t2f[3, ix3]\n",
    'one child facet of parent facet slot 2 wrong')
mut('c12_generic_children', 'C12', 'skfem/mesh/mesh.py',
    "                        new_t[itr + 1] = new_t[itr] + m.t.shape[1]\n",
    "                        new_t[itr + 1] = new_t[itr] + m.t.shape[1] - (itr == 2)\n",
    'generic child map: fourth child block shifted by one')
mut('c12_tet_offsets', 'C12', 'skfem/mesh/mesh_tet_1.py',
    "                new_t[6, c2] = np.arange(n2, dtype=np.int32) + 6 * nt + n1\n",
    "                new_t[6, c2] = np.arange(n2, dtype=np.int32) + 6 * nt\n",
    'tetrahedral child map ignores the class offset for one block')

# ---------------------------------------------------------------- C13
mut('c13_closure_once', 'C13', 'skfem/mesh/mesh_tri_1.py',
    "        while np.count_nonzero(facets) - prev_nnz > 0:\n", "        for _ in range(1):\n",
    'closure loop runs a single sweep')
mut('c13_green_template', 'C13', 'skfem/mesh/mesh_tri_1.py',
    "            np.vstack((m.t[2, green], ix[2, green], m.t[1, green])),\n        ))\n",
    "            np.vstack((m.t[2, green], ix[2, green], m.t[0, green])),\n        ))\n",
    'second green child uses the wrong vertex')
mut('c13_subdomain_blue', 'C13', 'skfem/mesh/mesh_tri_1.py',
    "            offset += 3 * nblue1\n", "            offset += 3 * nblue1 + 0 * nblue2 - (nblue1 > 0)\n",
    'subdomain child offsets after the blue-1 block off by one')
mut('c13_line_mid', 'C13', 'skfem/mesh/mesh_line_1.py',
    "        newp = np.hstack((p, p[:, t[:, marked]].mean(1)))\n",
    "        newp = np.hstack((p, p[:, t[:, np.sort(marked)]].mean(1)))\n",
    '1-D adaptive midpoints computed for the sorted marked list')

# ---------------------------------------------------------------- C14
mut('c14_no_fallback', 'C14', 'skfem/mesh/mesh_tri_1.py',
    "                return finder(x, y, _search_all=True)\n",
    "                raise ValueError(\"Point is outside of the mesh.\")\n",
    'no exhaustive fallback after the nearest-centroid candidates')
mut('c14_probes_cols', 'C14', 'skfem/assembly/basis/cell_basis.py',
    "        cols = self.element_dofs[:, np.tile(cells, comp)].flatten()\n",
    "        cols = self.element_dofs[:, np.repeat(cells, comp)].flatten()\n",
    'column indices repeated instead of tiled (vector/tensor elements only)')
mut('c14_quad_mod', 'C14', 'skfem/mesh/mesh_quad_1.py',
    "            return tri_finder(*args) % self.t.shape[1]\n",
    "            return tri_finder(*args) // 2\n", 'quad finder maps triangle index by halving')
mut('c14_outside_accept', 'C14', 'skfem/mesh/mesh_tet_1.py',
    "                if _search_all:\n                    raise ValueError(\"Point is outside of the mesh.\")\n",
    "                if _search_all:\n                    return np.array([ix[inside.argmax(axis=0)]]).flatten()\n",
    'outside points return cell 0 instead of raising (tetrahedra)')

# ---------------------------------------------------------------- C15
mut('c15_morphed_inplace', 'C15', 'skfem/mesh/mesh.py',
    "        p = self.p.copy()\n        for i, arg in enumerate(args):\n",
    "        p = self.p\n        for i, arg in enumerate(args):\n", 'morphed edits the operand mesh in place')
mut('c15_tree_on_class', 'C15', 'skfem/mesh/mesh_tet_1.py',
    "        if not hasattr(self, '_cached_tree'):\n            from scipy.spatial import cKDTree\n            self._cached_tree = cKDTree(np.mean(self.p[:, self.t], axis=1).T)\n\n        tree = self._cached_tree\n        nelems = self.t.shape[1]\n\n        def finder(x, y, z, _search_all=False):",
    "        if not hasattr(type(self), '_cached_tree'):\n            from scipy.spatial import cKDTree\n            type(self)._cached_tree = cKDTree(np.mean(self.p[:, self.t], axis=1).T)\n\n        tree = self._cached_tree\n        nelems = self.t.shape[1]\n\n        def finder(x, y, z, _search_all=False):",
    'KD-tree memoised on the class: second tetrahedral mesh reuses the first tree')
mut('c15_affine_cache_tind', 'C15', 'skfem/assembly/basis/cell_basis.py',
    "        if self._global_coordinates is None:\n            self._global_coordinates = DiscreteField(\n                self.mapping.F(self.X, tind=self.tind)\n            )\n        return self._global_coordinates\n",
    "        if getattr(self.mapping, '_gc', None) is None:\n            self.mapping._gc = DiscreteField(\n                self.mapping.F(self.X, tind=self.tind)\n            )\n        return self.mapping._gc\n",
    'global coordinates memoised on the shared mapping object')
mut('c15_penalize_nocopy', 'C15', 'skfem/utils.py',
    "    bout = b if overwrite else b.copy()\n    # Nothing needs doing",
    "    bout = b\n    # Nothing needs doing", 'penalize writes into the caller\'s right-hand side')

# ---------------------------------------------------------------- C16
mut('c16_pairs_transposed', 'C16', 'skfem/assembly/form/bilinear_form.py',
    "                [[i, j] for j, i in product(range(ubasis.Nbfun),\n                                            range(vbasis.Nbfun))]\n",
    "                [[i, j] for i, j in product(range(ubasis.Nbfun),\n                                            range(vbasis.Nbfun))]\n",
    'threaded pair list built with trial/test ranges exchanged (rectangular only)')
mut('c16_drop_remainder', 'C16', 'skfem/assembly/form/bilinear_form.py',
    "                ) for ix in np.array_split(indices, self.nthreads, axis=0)\n",
    "                ) for ix in np.array_split(indices, self.nthreads, axis=0)[:len(indices)]\n",
    'control: equivalent unless more threads than pairs (then drops nothing) ')
mut('c16_shared_scratch', 'C16', 'skfem/assembly/form/bilinear_form.py',
    "        for ij in ix:\n            i, j = ij\n            data[j, i] = self._kernel(\n                ubasis[j],\n                vbasis[i],\n                wdict,\n                dx,\n            )\n",
    "        for ij in ix:\n            i, j = ij\n            self._ij = (i, j)\n            tmp = self._kernel(\n                ubasis[j],\n                vbasis[i],\n                wdict,\n                dx,\n            )\n            data[self._ij[1], self._ij[0]] = tmp\n",
    'destination slot kept in shared state across the kernel call (race)')
mut('c16_many_threads', 'C16', 'skfem/assembly/form/bilinear_form.py',
    "        if self.nthreads > 0:\n            # create indices for linear loop over local stiffness matrix\n",
    "        if self.nthreads > 0:\n            self.nthreads = min(self.nthreads, 2)\n            # create indices for linear loop over local stiffness matrix\n",
    'control: clamps thread count (result unchanged; form object mutated)')

# ---------------------------------------------------------------- C17
mut('c17_owner_cell', 'C17', 'skfem/mesh/mesh.py',
    "            columns = self.f2t[(b.ori, b)]\n", "            columns = self.f2t[(0 * b.ori, b)]\n",
    'boundary encoding always uses the first neighbour: orientation flags lost')
mut('c17_bitmask', 'C17', 'skfem/mesh/mesh.py',
    "            return (1 << np.arange(self.refdom.nfacets)) @ t2f_mask\n",
    "            return (1 << np.arange(self.refdom.nfacets)[::-1]) @ t2f_mask\n",
    'bit order reversed in encoding only')
mut('c17_npz_prefix', 'C17', 'skfem/mesh/mesh.py',
    "                if key[:2] == 's_'\n", "                if key[:2] == 's_' and len(data[key]) > 1\n",
    'single-cell subdomains dropped when loading npz')
mut('c17_subdomain_decode', 'C17', 'skfem/mesh/mesh.py',
    "                subdomains[subnames[2]] = np.nonzero(data[0])[0]\n",
    "                subdomains[subnames[2]] = np.nonzero(data[0][1:])[0] + 1\n",
    'cell 0 never decoded into a subdomain')

# ---------------------------------------------------------------- C18
mut('c18_restrict_facet0', 'C18', 'skfem/mesh/mesh.py',
    "            new_boundaries = {k: v[v >= 0]\n", "            new_boundaries = {k: v[v > 0]\n",
    'restricted meshes lose new facet 0 from every tag')
mut('c18_restrict_subdomains', 'C18', 'skfem/mesh/mesh.py',
    "            newt[elements] = np.arange(len(elements), dtype=np.int32)\n",
    "            newt[np.sort(elements)] = np.arange(len(elements), dtype=np.int32)\n",
    'old->new cell map assumes the selection is sorted')
mut('c18_meshtri_subdomains', 'C18', 'skfem/mesh/mesh_quad_1.py',
    "                subdomains = {k: np.concatenate((v, v + nt))\n",
    "                subdomains = {k: np.concatenate((v, v + nt - 1))\n",
    'second triangle of each tagged quadrilateral off by one')
mut('c18_mirror_point', 'C18', 'skfem/mesh/mesh.py',
    "        p = p - 2. * np.dot(n, p - p0[:, None]) * n[:, None]\n",
    "        p = p - 2. * np.dot(n, p) * n[:, None] + p0[:, None]\n",
    'mirror plane through a point handled wrongly (origin unaffected)')
mut('c18_wedge_sort', 'C18', 'skfem/mesh/mesh_tri_1.py',
    "            for i, p in enumerate(np.sort(other.p[0])):\n", "            for i, p in enumerate(other.p[0]):\n",
    'extrusion layers follow vertex numbering instead of coordinate order')

# ---------------------------------------------------------------- C19
mut('c19_split_edge_facet', 'C19', 'skfem/assembly/basis/abstract_basis.py',
    "                    self.edge_dofs[o[1]:(o[1] + e.edge_dofs)].flatten('F'),\n                    self.facet_dofs[o[2]:(o[2] + e.facet_dofs)].flatten('F'),\n",
    "                    self.facet_dofs[o[2]:(o[2] + e.facet_dofs)].flatten('F'),\n                    self.edge_dofs[o[1]:(o[1] + e.edge_dofs)].flatten('F'),\n",
    'composite split lists facet before edge DOFs (3-D elements with both)')
mut('c19_vector_stride', 'C19', 'skfem/assembly/basis/abstract_basis.py',
    "                    self.interior_dofs[k::ndims].flatten('F'),\n",
    "                    self.interior_dofs[k:k + 1].flatten('F'),\n",
    'vector split takes only the first interior DOF of each component')
mut('c19_coo_add_shape', 'C19', 'skfem/assembly/form/coo_data.py',
    "            shape=tuple(max(self.shape[i],\n                            other.shape[i]) for i in range(len(self.shape))),\n",
    "            shape=self.shape,\n", 'sum of elemental data keeps the first operand\'s shape')
mut('c19_dot_D', 'C19', 'skfem/assembly/form/coo_data.py',
    "        if D is not None:\n            z[D] = x[D]\n        return z\n",
    "        if D is not None:\n            z[D] += x[D]\n        return z\n", 'COOData.dot adds instead of overriding on D')
mut('c19_deduce_bfun', 'C19', 'skfem/element/element_composite.py',
    "        if counts[2] > 0:\n            tmp = sum([[j] * self.elems[j].facet_dofs\n                       for j in range(len(self.elems))], [])\n",
    "        if counts[2] > 0:\n            tmp = sum([[j] * self.elems[j].facet_dofs\n                       for j in reversed(range(len(self.elems)))], [])\n",
    'facet basis functions of a composite attributed to components in reverse order')

# ---------------------------------------------------------------- C20
mut('c20_jac_rowcol', 'C20', 'skfem/autodiff/__init__.py',
    "                rows[ixs] = basis.element_dofs[i]\n                cols[ixs] = basis.element_dofs[j]\n",
    "                rows[ixs] = basis.element_dofs[j]\n                cols[ixs] = basis.element_dofs[i]\n",
    'autodiff Jacobian transposed')
mut('c20_np_inv_cofactor', 'C20', 'skfem/helpers.py',
    "        invA[2, 1] = (A[0, 1] * A[2, 0] -\n                      A[0, 0] * A[2, 1]) / detA\n",
    "        invA[2, 1] = (A[0, 1] * A[2, 0] +\n                      A[0, 0] * A[2, 1]) / detA\n", 'one 3x3 cofactor sign')
mut('c20_jax_mul', 'C20', 'skfem/autodiff/helpers.py',
    "        return jnp.einsum('ij...,jk...->ik...', A, B)\n",
    "        return jnp.einsum('ij...,kj...->ik...', A, B)\n", 'JAX matrix-matrix product multiplies by the transpose')
mut('c20_cross3', 'C20', 'skfem/helpers.py',
    "            A[2] * B[0] - A[0] * B[2],\n", "            A[0] * B[2] - A[2] * B[0],\n",
    'second component of the 3-D cross product negated')
mut('c20_sym_grad', 'C20', 'skfem/autodiff/helpers.py',
    "def sym_grad(u):\n    return .5 * (u.grad + transpose(u.grad))\n",
    "def sym_grad(u):\n    return .5 * (u.grad + u.grad)\n", 'JAX symmetric gradient is the plain gradient')

# ================================================================ batch 2
# subtler edits that only show on irregular input (unsorted subsets, per-cell point arrays,
# rarely used orders, 3-D-only paths) -- the region the properties quantify over
mut('c02_affine_detdf_sorted', 'C02', 'skfem/mapping/mapping_affine.py',
    "            detDF = self.detA[tind]\n", "            detDF = self.detA[np.sort(tind)]\n",
    'affine determinants picked in sorted order: wrong dx for unsorted cell subsets')
mut('c02_facet_detb_sorted', 'C02', 'skfem/mapping/mapping_affine.py',
    "            detDG = self.detB[find]\n", "            detDG = self.detB[np.sort(find)]\n",
    'facet measures picked in sorted order: wrong dx for unsorted facet subsets')
mut('c08_tri_rule13_node', 'C08', 'skfem/quadrature.py',
    "                            0.333333333333333,\n                            0.495048184939704,\n",
    "                            0.333333333333333,\n                            0.495048184939714,\n",
    'one node of the order-13 triangle rule perturbed in the 14th digit')
mut('c03_hcurl2d_percell_orient', 'C03', 'skfem/element/element_hcurl.py',
    "                    value=np.einsum('ijkl,ikl,k->jkl', invDF, phi, orient),\n                    curl=dphi / detDF * orient[:, None],\n",
    "                    value=np.einsum('ijkl,ikl,k->jkl', invDF, phi, 0 * orient + 1),\n                    curl=dphi / detDF * orient[:, None],\n",
    '2-D H(curl) values lose their orientation sign on per-cell points (all facet bases)')
mut('c09_hcurl2d_percell_curl', 'C09', 'skfem/element/element_hcurl.py',
    "                    curl=dphi / detDF * orient[:, None],\n                ),)\n        raise NotImplementedError\n",
    "                    curl=dphi / np.abs(detDF) * orient[:, None],\n                ),)\n        raise NotImplementedError\n",
    '2-D curl on per-cell points scaled by |det| (mirrored cells, facet bases)')
mut('c09_matrix_percell', 'C09', 'skfem/element/element_matrix.py',
    "                value=np.einsum('ijkl,jakl,bakl,kl->ibkl', DF, phi, DF,\n",
    "                value=np.einsum('ijkl,jakl,abkl,kl->ibkl', DF, phi, DF,\n",
    'matrix Piola map on per-cell points uses DF^T on the right')
mut('c04_vector_doflocs', 'C04', 'skfem/element/element_vector.py',
    "                elem.doflocs[int(np.floor(float(i) / float(self.dim)))]\n",
    "                elem.doflocs[i % elem.doflocs.shape[0]]\n",
    'DOF locations of vector elements cycled instead of repeated')
mut('c05_condense_eig_T', 'C05', 'skfem/utils.py',
    "            bout = b[I][:, I]\n", "            bout = b[I][:, I].T.tocsr()\n",
    'condensed mass matrix transposed (unsymmetric right-hand-side matrices only)')
mut('c05_mpc_g_sign', 'C05', 'skfem/utils.py',
    "                        b[M] - A[M][:, S] @ g))\n", "                        b[M] + A[M][:, S] @ g))\n",
    'inhomogeneous multipoint constraints: wrong sign in the master rows')
mut('c10_affine_G_sorted', 'C10', 'skfem/mapping/mapping_affine.py',
    "            B, c = self.B[:, :, find], self.c[:, find]\n",
    "            B, c = self.B[:, :, find], self.c[:, np.sort(find)]\n",
    'facet map offsets picked in sorted order (unsorted facet subsets)')
mut('c10_affine_DF_percell', 'C10', 'skfem/mapping/mapping_affine.py',
    "            return np.einsum('ijk,kl->ijkl', DF, 1 + np.zeros_like(X[0]))\n",
    "            return np.einsum('jik,kl->ijkl', DF, 1 + np.zeros_like(X[0]))\n",
    'affine Jacobian transposed for per-cell point arrays')
mut('c11_interior_nodes_from1', 'C11', 'skfem/mesh/mesh.py',
    "        return np.setdiff1d(np.arange(0, self.p.shape[1]),\n",
    "        return np.setdiff1d(np.arange(1, self.p.shape[1]),\n",
    'vertex 0 is never reported interior (a corner in every built-in mesh)')
mut('c11_boundary_edges_hexdiag', 'C11', 'skfem/mesh/mesh_3d.py',
    "                              self.facets[(itr + 1) % self.facets.shape[0],\n",
    "                              self.facets[(itr + 2) % self.facets.shape[0],\n",
    'boundary edges from vertex pairs two apart (same set for triangles, diagonals for quads)')
mut('c13_blue2_submap', 'C13', 'skfem/mesh/mesh_tri_1.py',
    "            new_t[:3, blue2] = np.arange(offset,\n                                         offset + 3 * nblue2,\n                                         dtype=np.int32).reshape(3, -1)\n",
    "            new_t[:3, blue2] = np.arange(offset,\n                                         offset + 3 * nblue2,\n                                         dtype=np.int32).reshape(-1, 3).T\n",
    'children of blue-2 cells attributed to the wrong parents when several exist')
mut('c19_bmat_sizes', 'C19', 'skfem/utils.py',
    "                diff += sizes[-1]\n", "                diff = sizes[-1]\n",
    'block offsets of bmat wrong from the third block column on')
mut('c20_dddot', 'C20', 'skfem/helpers.py',
    "    return np.einsum('ijk...,ijk...', u, v)\n", "    return np.einsum('ijk...,ikj...', u, v)\n",
    'triple dot product contracts transposed indices')
mut('c20_curl3_helper', 'C20', 'skfem/helpers.py',
    "                u.grad[0, 2] - u.grad[2, 0],\n", "                u.grad[2, 0] - u.grad[0, 2],\n",
    'second component of the 3-D curl helper negated')
mut('c06_project_kw_facets', 'C06', 'skfem/assembly/basis/facet_basis.py',
    "        if facets is not None:\n            return solve(*condense(M, f, I=self.get_dofs(facets=facets)))\n",
    "        if facets is not None:\n            return solve(*condense(M, f, D=self.get_dofs(facets=facets)))\n",
    'keyword facet projection condenses the complement')
mut('c07_nodes_selector', 'C07', 'skfem/assembly/dofs.py',
    "            self,\n            nodes,\n            np.empty((0,), dtype=np.int32),\n",
    "            self,\n            nodes[:-1] if len(nodes) > 2 else nodes,\n            np.empty((0,), dtype=np.int32),\n",
    'vertex query drops the last of three or more vertices')
mut('c14_finder_candidates', 'C14', 'skfem/mesh/mesh_tri_1.py',
    "            return np.array([ix[inside.argmax(axis=0)]]).flatten()\n\n        return finder\n",
    "            return np.array([ix[inside.argmax(axis=0)]]).flatten() if not _search_all else np.array([inside.argmax(axis=0)]).flatten() * 0\n\n        return finder\n",
    'fallback search returns cell 0 (only reached when the nearest centroids miss)')

mut('c10_iso_normal_1norm', 'C10', 'skfem/mapping/mapping_isoparametric.py',
    "        nlength = np.sqrt(np.sum(n ** 2, axis=0))\n", "        nlength = np.sum(np.abs(n), axis=0)\n",
    'isoparametric normals normalised in the 1-norm (unit only on axis-parallel facets)')
mut('c10_iso_invF_start', 'C10', 'skfem/mapping/mapping_isoparametric.py',
    "            X = np.clip(X + dX, 0., 1.)\n", "            X = np.clip(X + dX, 0., 1. - 1e-6)\n",
    'Newton inverse clipped slightly inside the reference cell (points on far facets)')


def check():
    ok = True
    ids = set()
    for m in M:
        assert m['id'] not in ids, m['id']
        ids.add(m['id'])
        src = open(os.path.join(REPO, m['path'])).read()
        n = src.count(m['old'])
        if n != 1:
            ok = False
            print('NOT UNIQUE', m['id'], n)
    print(len(M), 'mutants', 'ok' if ok else 'PROBLEMS')
    return ok


def run_one(m):
    d = tempfile.mkdtemp(prefix='vf-mut-', dir='/var/tmp')
    try:
        dst = os.path.join(d, 'repo')
        shutil.copytree(REPO, dst, ignore=shutil.ignore_patterns('.git', '__pycache__', '.benchmarks'))
        f = os.path.join(dst, m['path'])
        src = open(f).read()
        src = src.replace(m['old'], m['new'], 1)
        for o, n in m.get('extra', []):
            assert src.count(o) == 1, (m['id'], o)
            src = src.replace(o, n, 1)
        open(f, 'w').write(src)
        env = dict(os.environ, PYTHONPATH=dst, PYTHONDONTWRITEBYTECODE='1',
                   OMP_NUM_THREADS='1', OPENBLAS_NUM_THREADS='1')
        # import check
        r0 = subprocess.run(['/venv/bin/python', '-c', 'import skfem, sys; assert skfem.__file__.startswith(sys.argv[1]), skfem.__file__', dst],
                            cwd=dst, env=env, capture_output=True, text=True)
        if r0.returncode != 0:
            return dict(id=m['id'], prop=m['prop'], suite='import-error', tail=r0.stderr[-300:])
        r = subprocess.run(['/venv/bin/python', '-m', 'pytest', '-q', '-p', 'no:cacheprovider', '-x',
                            '--timeout=900', '-n', '4', '--deselect', 'tests/test_mamba.py', 'tests'],
                           cwd=dst, env=env, capture_output=True, text=True)
        tail = r.stdout.strip().splitlines()[-6:]
        return dict(id=m['id'], prop=m['prop'], suite='killed' if r.returncode != 0 else 'survived',
                    tail=tail, note=m['note'])
    finally:
        shutil.rmtree(d, ignore_errors=True)


def run(ids):
    todo = [m for m in M if not ids or m['id'] in ids]
    res = json.load(open(OUT)) if os.path.exists(OUT) else {}
    with ThreadPoolExecutor(4) as ex:
        for out in ex.map(run_one, todo):
            res[out['id']] = out
            print(out['id'], out['suite'], flush=True)
            json.dump(res, open(OUT, 'w'), indent=1)


def probe(mid, script):
    """run a probe script against a scratch copy carrying one mutant"""
    m = [x for x in M if x['id'] == mid][0]
    d = tempfile.mkdtemp(prefix='vf-mut-', dir='/var/tmp')
    try:
        dst = os.path.join(d, 'repo')
        shutil.copytree(REPO, dst, ignore=shutil.ignore_patterns('.git', '__pycache__', '.benchmarks', 'docs'))
        f = os.path.join(dst, m['path'])
        src = open(f).read().replace(m['old'], m['new'], 1)
        for o, n in m.get('extra', []):
            src = src.replace(o, n, 1)
        open(f, 'w').write(src)
        env = dict(os.environ, PYTHONPATH=dst + ':' + os.path.dirname(os.path.abspath(script)),
                   PYTHONDONTWRITEBYTECODE='1')
        r = subprocess.run(['/venv/bin/python', script], cwd=d, env=env, capture_output=True, text=True)
        out = [l for l in (r.stdout + r.stderr).splitlines() if 'Warning' not in l]
        print('--- mutant', mid, '| probe', os.path.basename(script))
        print('\n'.join(out[-12:]))
    finally:
        shutil.rmtree(d, ignore_errors=True)


if __name__ == '__main__':
    if sys.argv[1] == 'check':
        sys.exit(0 if check() else 1)
    if sys.argv[1] == 'probe':
        probe(sys.argv[2], sys.argv[3])
        sys.exit(0)
    run(sys.argv[2:])
