import numpy as np, warnings, logging
warnings.filterwarnings('ignore'); logging.getLogger('skfem').setLevel(logging.ERROR)
from skfem import *
from skfem.helpers import *
from scipy.spatial import Delaunay
rng = np.random.default_rng(50)
p = rng.random((2, 9)); m = MeshTri(p, Delaunay(p.T).simplices.T)
# complex
ub = Basis(m, ElementTriP2()); vb = Basis(m, ElementTriP1(), intorder=4)
f2 = lambda u, v, w: (1j * u.grad[0] * v + (2 - 1j) * u * v.grad[1]) * w.x[0]
A = BilinearForm(f2, dtype=np.complex128).assemble(ub, vb)
u = rng.standard_normal(ub.N) + 1j*rng.standard_normal(ub.N); v = rng.standard_normal(vb.N) + 1j*rng.standard_normal(vb.N)
def cinterp(b, x): 
    r = b.interpolate(x.real); i = b.interpolate(x.imag)
    return r, i
ur, ui = cinterp(ub, u); vr, vi = cinterp(vb, v)
from skfem.element import DiscreteField
def CF(r, i): return DiscreteField(np.array(r) + 1j*np.array(i), r.grad + 1j*i.grad)
J = Functional(lambda w: f2(CF(ur, ui), CF(vr, vi), w), dtype=np.complex128).assemble(ub)
print('complex bilinear vs functional %.1e' % abs(v @ (A @ u) - J))
L = LinearForm(lambda v_, w: f2(CF(ur, ui), v_, w), dtype=np.complex128).assemble(vb)
print('complex linear %.1e' % abs(L @ v - J), A.dtype, L.dtype)
# complex interpolate directly
try:
    uc = ub.interpolate(u); print('interpolate complex dtype', np.array(uc).dtype, 'err %.1e' % np.abs(np.array(uc) - (np.array(ur) + 1j*np.array(ui))).max())
except Exception as ex: print('interpolate complex EXC', ex)
# trilinear
b1 = Basis(m, ElementTriP1())
T = TrilinearForm(lambda u, v, w, p_: u.grad[0] * v * w * p_.x[1]).assemble(b1)
a, b_, c = [rng.standard_normal(b1.N) for _ in range(3)]
Td = T.toarray()
J = Functional(lambda w: w['a'].grad[0] * w['b'] * w['c'] * w.x[1]).assemble(b1, a=b1.interpolate(a), b=b1.interpolate(b_), c=b1.interpolate(c))
print('trilinear T[w,v,u]: %.1e' % abs(np.einsum('ijk,i,j,k', Td, c, b_, a) - J), 'shape', Td.shape)
# w.h on cell and facet; 1-D facet basis
fb = FacetBasis(m, ElementTriP1()); print('h facet == facet length', np.allclose(np.array(fb.mesh_parameters())[:, 0], np.linalg.norm(np.diff(m.p[:, m.facets[:, fb.find]], axis=1)[:, 0], axis=0)))
ml = MeshLine(np.array([0., .3, 1.])); fl = FacetBasis(ml, ElementLineP2()); 
print('1-D facet: unit integral', Functional(lambda w: 1. + 0*w.x[0]).assemble(fl), 'x.n', Functional(lambda w: w.x[0]*w.n[0]).assemble(fl), 'normals', np.array(fl.normals).flatten())
il = InteriorFacetBasis(ml, ElementLineP2(), side=0); i2 = InteriorFacetBasis(ml, ElementLineP2(), side=1); z = rng.standard_normal(il.N)
print('1-D interior jump %.1e' % np.abs(np.array(il.interpolate(z)) - np.array(i2.interpolate(z))).max())
# oriented boundary sides
intf = np.nonzero(m.f2t[1] != -1)[0][:4]
from skfem.generic_utils import OrientedBoundary
ob = OrientedBoundary(intf, np.array([1, 0, 1, 0]))
f0 = FacetBasis(m, ElementTriP1(), facets=ob, side=0); f1 = FacetBasis(m, ElementTriP1(), facets=ob, side=1)
print('oriented: tind side0', f0.tind, 'expected', m.f2t[ob.ori, intf], 'side1', f1.tind, 'expected', m.f2t[1 - ob.ori, intf])
cen = m.p[:, m.t[:, f0.tind]].mean(1); mid = m.p[:, m.facets[:, intf]].mean(1)
print('normals point out of side-0 cell', (np.einsum('if,if->f', np.array(f0.normals)[:, :, 0], mid - cen) > 0).all(), 'side1 normals same', np.allclose(np.array(f0.normals), np.array(f1.normals)))
