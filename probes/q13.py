import numpy as np, warnings, logging
warnings.filterwarnings('ignore'); logging.getLogger('skfem').setLevel(logging.ERROR)
from skfem import *
from scipy.spatial import Delaunay
rng = np.random.default_rng(35)
p = rng.random((2, 12)); m = MeshTri(p, Delaunay(p.T).simplices.T)
S = rng.choice(m.nelements, m.nelements//2, replace=False)
for e in [ElementTriP2(), ElementTriP1(), ElementVector(ElementTriP2()), ElementTriRT1(), ElementDG(ElementTriP1())]:
    b = Basis(m, e); z = rng.standard_normal(b.N)
    print(type(e).__name__, 'whole %.1e' % np.abs(b.project(b.interpolate(z)) - z).max(), end=' ')
    bs = Basis(m, e, elements=S); I = bs.get_dofs(elements=S).flatten(); y = bs.project(bs.interpolate(z))
    D = np.setdiff1d(np.arange(b.N), I)
    print('restricted-basis: on I %.1e off I %.1e' % (np.abs(y[I] - z[I]).max(), np.abs(y[D]).max() if len(D) else 0), end=' ')
    y2 = b.project(b.interpolate(z), elements=S); print('kwarg general z: %.1e' % np.abs(y2[I] - z[I]).max(), end=' ')
    z0 = z.copy(); z0[D] = 0; y3 = b.project(b.interpolate(z0), elements=S); print('kwarg z_D=0: %.1e' % np.abs(y3 - z0).max())
# facet
F = rng.choice(m.boundary_facets(), 4, replace=False)
for e in [ElementTriP2(), ElementTriP1(), ElementVector(ElementTriP1())]:
    fb = FacetBasis(m, e, facets=F); z = rng.standard_normal(fb.N); I = fb.get_dofs(F).flatten(); D = np.setdiff1d(np.arange(fb.N), I)
    y = fb.project(fb.interpolate(z)); print('facet', type(e).__name__, 'on I %.1e off %.1e' % (np.abs(y[I]-z[I]).max(), np.abs(y[D]).max()))
# curved
mc = MeshTri2.init_circle(1); b = Basis(mc, ElementTriP2()); z = rng.standard_normal(b.N); print('curved whole %.1e' % np.abs(b.project(b.interpolate(z)) - z).max())
fb = FacetBasis(mc, ElementTriP2()); I = fb.get_dofs().flatten(); y = fb.project(fb.interpolate(z)); print('curved facet %.1e' % np.abs(y[I]-z[I]).max())
