import numpy as np, warnings, logging
warnings.filterwarnings('ignore'); logging.getLogger('skfem').setLevel(logging.ERROR)
from skfem import *
rng = np.random.default_rng(36)
# 1-D finder: unsorted numbering, flipped cells
x = np.array([0., .2, .7, 1.3]); perm = np.array([2, 0, 3, 1]); p = x[np.argsort(perm)][None, :]   # vertex perm[k] has coord x[k]
# cells connect consecutive coordinates: vertices perm[k], perm[k+1]; flip some
t = np.array([[perm[0], perm[2], perm[2]], [perm[1], perm[1], perm[3]]])
m = MeshLine(p, t)
print('p', m.p, 't', m.t.tolist())
f = m.element_finder()
for q in [np.array([0.1, .5, 1.0, 0., 1.3, .2, .7])]:
    c = f(q); ok = [(min(m.p[0, m.t[:, ci]]) - 1e-12 <= qi <= max(m.p[0, m.t[:, ci]]) + 1e-12) for qi, ci in zip(q, c)]
    print('inside', c, ok)
for q in [np.array([-0.1]), np.array([1.4]), np.array([.5, 2.])]:
    try: print('outside', q, '->', f(q))
    except Exception as ex: print("outside", q, "raises", type(ex).__name__)
# sorted default
m2 = MeshLine(np.array([0., .5, 1.])); f2 = m2.element_finder()
for q in [np.array([-1e-3]), np.array([1 + 1e-3]), np.array([0.]), np.array([1.])]:
    try: print(q, '->', f2(q))
    except Exception: print(q, 'raises')
# tri/tet/quad outside points
mt = MeshTri.init_lshaped(); ft = mt.element_finder()
for q in [np.array([[.5], [.5]]), np.array([[2.], [0.]]), np.array([[-.5], [.5]])]:
    try: print('lshape', q.T, '->', ft(*q))
    except Exception: print('lshape', q.T, 'raises')
mq = MeshQuad().refined(1); fq = mq.element_finder()
try: print('quad outside', fq(np.array([1.5]), np.array([.5])))
except Exception: print('quad outside raises')
mh = MeshHex().refined(1); fh = mh.element_finder()
try: print('hex outside', fh(np.array([1.5]), np.array([.5]), np.array([.5])))
except Exception: print('hex outside raises')
c = fh(np.array([.3, .8]), np.array([.2, .6]), np.array([.9, .1])); print('hex inside', c, [ (mh.p[:, mh.t[:, ci]].min(1), mh.p[:, mh.t[:, ci]].max(1)) for ci in c][:1])
