import numpy as np, warnings
warnings.filterwarnings('ignore')
from skfem import *
from skfem.generic_utils import OrientedBoundary
import scipy.sparse as sp
# 9: eigen solver sticky kwargs
m = MeshTri().refined(3); b = Basis(m, ElementTriP1())
from skfem.models.poisson import laplace, mass
K = laplace.assemble(b); M = mass.assemble(b)
s = solver_eigen_scipy()
L1, _ = solve(*condense(K, M, D=b.get_dofs()), solver=s, k=2)
L2, _ = solve(*condense(K, M, D=b.get_dofs()), solver=s)
L3, _ = solve(*condense(K, M, D=b.get_dofs()), solver=solver_eigen_scipy())
print('eig sticky', len(L1), len(L2), len(L3))
# krylov sticky preconditioner with different size
s = solver_iter_krylov(rtol=1e-12)
A1 = K + M; f1 = np.ones(A1.shape[0]); x1 = solve(A1, f1, solver=s)
m2 = MeshTri().refined(2); b2 = Basis(m2, ElementTriP1()); A2 = laplace.assemble(b2) + mass.assemble(b2)
try:
    x2 = solve(A2, np.ones(A2.shape[0]), solver=s); print('krylov reuse ok', np.abs(A2 @ x2 - 1).max())
except Exception as ex: print('krylov reuse EXC', type(ex).__name__, str(ex)[:80])
# 8: J cache collision
mq = MeshQuad().refined(1)  # 4 cells
mp = mq.mapping()
X1 = np.array([[.1,.2,.3,.4,.5,.6,.7,.8],[.2,.3,.4,.5,.6,.7,.8,.9]])   # (2, 8) shared
X2 = X1.reshape(2, 4, 2)                                               # per-cell (2,4,2)
d1 = mp.detDF(X1); 
try:
    d2 = mp.detDF(X2); d2f = MeshQuad().refined(1).mapping().detDF(X2)
    print('Jcache', d1.shape, d2.shape, d2f.shape)
except Exception as ex: print('Jcache EXC', type(ex).__name__, str(ex)[:80])
# 11: npz/dict orientation
m = MeshTri().refined(1)
intf = np.nonzero(m.f2t[1] != -1)[0][:3]
mm = m.with_boundaries({'a': OrientedBoundary(intf, np.array([1,0,1]))}).with_subdomains({'s': np.array([0, 2])})
import tempfile, os
with tempfile.TemporaryDirectory() as d:
    mm.save_npz(os.path.join(d, 'x.npz')); M = MeshTri.load_npz(os.path.join(d, 'x.npz'))
    print('npz', type(M.boundaries['a']).__name__, getattr(M.boundaries['a'], 'ori', None), M.subdomains)
    m.save_npz(os.path.join(d, 'y.npz')); M = MeshTri.load_npz(os.path.join(d, 'y.npz')); print('npz none tags ->', M.boundaries, M.subdomains)
D = mm.to_dict(); M = MeshTri.from_dict(D); print('dict', type(M.boundaries['a']).__name__, getattr(M.boundaries['a'], 'ori', None))
print(hasattr(__import__('skfem'), 'MortarFacetBasis'))
