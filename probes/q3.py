import numpy as np, warnings, logging
warnings.filterwarnings('ignore'); logging.getLogger('skfem').setLevel(logging.ERROR)
from skfem import *
from skfem.autodiff import NonlinearForm
from skfem.autodiff import helpers as jh
import skfem.helpers as nh
import jax.numpy as jnp
from scipy.spatial import Delaunay
rng = np.random.default_rng(23)
p = rng.random((2, 9)); m = MeshTri(p, Delaunay(p.T).simplices.T)
def fdJ(form, basis, x0, h=1e-6):
    J = np.zeros((basis.N, basis.N))
    for k in range(basis.N):
        e = np.zeros(basis.N); e[k] = h
        rp = form.assemble(basis, x=x0 + e)[1]; rm = form.assemble(basis, x=x0 - e)[1]
        J[:, k] = -(rp - rm) / (2*h)     # r = -F
    return J
# scalar
b = Basis(m, ElementTriP2())
@NonlinearForm
def f1(u, v, w):
    return (1. + u**2) * jh.dot(jh.grad(u), jh.grad(v)) + jnp.sin(u.value) * v * w.x[0] - v
x0 = rng.standard_normal(b.N) * .3
J, r = f1.assemble(b, x=x0)
print('scalar J vs FD %.1e' % np.abs(J.toarray() - fdJ(f1, b, x0)).max())
uh = b.interpolate(x0)
Jh = BilinearForm(lambda u, v, w: (1 + w['u0']**2) * nh.dot(u.grad, v.grad) + 2*w['u0']*u*nh.dot(w['u0'].grad, v.grad) + np.cos(w['u0'])*u*v*w.x[0]).assemble(b, u0=uh)
rh = LinearForm(lambda v, w: (1 + w['u0']**2) * nh.dot(w['u0'].grad, v.grad) + np.sin(w['u0'])*v*w.x[0] - v).assemble(b, u0=uh)
print('scalar J vs hand %.1e  r vs hand %.1e' % (np.abs(J - Jh).max(), np.abs(r + rh).max()))
# vector + composite
bc = Basis(m, ElementVector(ElementTriP2()) * ElementTriP1())
@NonlinearForm
def f2(u, p_, v, q, w):
    return jh.ddot(jh.sym_grad(u), jh.sym_grad(v)) + jh.dot(jh.mul(jh.grad(u), u), v) - jh.div(v)*p_ + jh.div(u)*q + 1e-2*p_*q*p_
x0 = rng.standard_normal(bc.N) * .3
J, r = f2.assemble(bc, x=x0)
print('composite J vs FD %.1e' % np.abs(J.toarray() - fdJ(f2, bc, x0)).max())
# hessian (energy) mode
@NonlinearForm(hessian=True)
def en(u, w):
    return .5*jh.dot(jh.grad(u), jh.grad(u)) + .25*u**4 - u*w.x[1]
x0 = rng.standard_normal(b.N)*.3
J, r = en.assemble(b, x=x0)
uh = b.interpolate(x0)
Jh = BilinearForm(lambda u, v, w: nh.dot(u.grad, v.grad) + 3*w['u0']**2*u*v).assemble(b, u0=uh)
rh = LinearForm(lambda v, w: nh.dot(w['u0'].grad, v.grad) + w['u0']**3*v - v*w.x[1]).assemble(b, u0=uh)
print('energy J vs hand %.1e r %.1e' % (np.abs(J - Jh).max(), np.abs(r + rh).max()))
# facet basis + w.n
fb = FacetBasis(m, ElementTriP2())
@NonlinearForm
def f3(u, v, w):
    return u**3 * v * w.n[0] + jh.dot(jh.grad(u), w.n) * v
x0 = rng.standard_normal(fb.N)*.3
try:
    J, r = f3.assemble(fb, x=x0); uh = fb.interpolate(x0)
    Jh = BilinearForm(lambda u, v, w: 3*w['u0']**2*u*v*w.n[0] + nh.dot(u.grad, w.n)*v).assemble(fb, u0=uh)
    print('facet J vs hand %.1e' % np.abs(J - Jh).max())
except Exception as ex: print('facet EXC', type(ex).__name__, str(ex)[:100])
# helpers compare
A = rng.standard_normal((3,3,4,5)); B = rng.standard_normal((3,3,4,5)); a = rng.standard_normal((3,4,5)); c = rng.standard_normal((3,4,5))
for name, args in [('dot', (a, c)), ('ddot', (A, B)), ('prod', (a, c)), ('transpose', (A,)), ('trace', (A,)), ('mul', (A, a)), ('det', (A,)), ('eye', (a[0], 3))]:
    g = np.array(getattr(jh, name)(*args)); n = getattr(nh, name)(*args)
    print(name, '%.1e' % np.abs(g - n).max())
T3 = rng.standard_normal((2,2,2,4,5)); print('dddot', '%.1e' % np.abs(np.array(jh.dddot(T3, T3)) - nh.dddot(T3, T3)).max())
print('prod3', '%.1e' % np.abs(np.array(jh.prod(a, c, a)) - nh.prod(a, c, a)).max())
print('identity', nh.identity(A).shape, np.abs(nh.identity(A) - np.eye(3)[:, :, None, None]).max())
print('cross3 %.1e cross2 %.1e' % (np.abs(nh.cross(a, c) - np.cross(a, c, axis=0)).max(), np.abs(nh.cross(a[:2], c[:2]) - (a[0]*c[1]-a[1]*c[0])).max()))
print([n for n in dir(nh) if not n.startswith('_') and callable(getattr(nh, n))])
print([n for n in dir(jh) if not n.startswith('_') and callable(getattr(jh, n))])
