import os, json, hashlib, sys
import hypothesis
from hypothesis import settings, strategies as st, seed, Phase
from hypothesis.stateful import RuleBasedStateMachine, rule, invariant, precondition, run_state_machine_as_test
LOG = []
class M(RuleBasedStateMachine):
    def __init__(self):
        super().__init__(); self.h = []
    @rule(k=st.integers(0, 5))
    def a(self, k): self.h.append(('a', k))
    @rule(x=st.lists(st.integers(0, 3), max_size=3))
    def b(self, x): self.h.append(('b', tuple(x)))
    def teardown(self): LOG.append(tuple(self.h))
def run(s):
    LOG.clear()
    run_state_machine_as_test(seed(s)(M), settings=settings(max_examples=30, stateful_step_count=6, deadline=None, database=None, phases=(Phase.generate,)))
    return hashlib.sha256(json.dumps(LOG).encode()).hexdigest()[:12], len(LOG)
print(run(1), run(1), run(2))
