import numpy as np, warnings
warnings.filterwarnings('ignore')
from skfem import *
mq = MeshQuad().refined(1); mp = mq.mapping()
X1 = np.array([[.1,.2,.3,.4,.5,.6,.7,.8],[.2,.3,.4,.5,.6,.7,.8,.9]]); X2 = X1.reshape(2, 4, 2)
ti = np.arange(4, dtype=np.int32)
d1 = mp.detDF(X1, ti)
for name, f in [('reuse', mp), ('fresh', MeshQuad().refined(1).mapping())]:
    try:
        d2 = f.detDF(X2, ti); print(name, d2.shape)
    except Exception as ex: print(name, 'EXC', str(ex)[:90])
# affine with per-cell X and tind None works?
mt = MeshTri().refined(1); print(mt.mapping().F(np.zeros((2, 8, 3)) + .2).shape)
