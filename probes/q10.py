import numpy as np, itertools
from q9 import *
for n in range(0, 10):
    X, W = get_quadrature(RefTet, n)
    errs = {}
    for deg in range(0, n+2):
        w = 0
        for e in itertools.product(range(deg+1), repeat=3):
            if sum(e) != deg: continue
            got = float(np.sum(W * np.prod([X[k]**e[k] for k in range(3)], axis=0))); ex = float(int_ref(Poly({e: Fr(1)}), 'simplex'))
            w = max(w, abs(got-ex)/ex)
        errs[deg] = '%.0e' % w
    print('tet order', n, 'npts', len(W), 'sumW %.16f' % W.sum(), 'inside', bool((X.min() >= -1e-14) and (X.sum(0).max() <= 1+1e-14)), errs)
for n in [2, 3, 4, 5, 6, 7, 10, 15, 19]:
    X, W = get_quadrature(RefTri, n)
    w = {}
    for deg in [n, n+1]:
        ww = 0
        for e in itertools.product(range(deg+1), repeat=2):
            if sum(e) != deg: continue
            got = float(np.sum(W * X[0]**e[0] * X[1]**e[1])); ex = float(int_ref(Poly({e: Fr(1)}), 'simplex')); ww = max(ww, abs(got-ex)/ex)
        w[deg] = '%.0e' % ww
    print('tri order', n, 'npts', len(W), 'inside', bool((X.min() >= -1e-14) and (X.sum(0).max() <= 1+1e-14)), w)
