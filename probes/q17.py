import numpy as np, scipy.sparse as sp, warnings
warnings.filterwarnings('ignore')
from skfem.utils import penalize, condense, enforce, solve, mpc
rng = np.random.default_rng(41)
n = 6
A = sp.random(n, n, density=.5, random_state=3, format='csr') + 5*sp.eye(n); A = A.tocsr()
b = rng.standard_normal(n); x = rng.standard_normal(n)
D = np.array([4, 1]); 
y0 = solve(*condense(A, b, x=x, D=D)); y1 = solve(*penalize(A, b, x=x, D=D)); y2 = solve(*enforce(A, b, x=x, D=D))
print('penalize vs condense %.1e, enforce vs condense %.1e' % (np.abs(y0-y1).max(), np.abs(y0-y2).max()))
# zero diagonal on D rows
A2 = A.tolil(); A2[4, :] = 0; A2[1, :] = 0; A2 = A2.tocsr(); A2.eliminate_zeros()
try:
    y1 = solve(*penalize(A2, b, x=x, D=D)); print('penalize zero-diag rows: y[D]-x[D] %.1e' % np.abs(y1[D]-x[D]).max(), y1[D])
except Exception as ex: print('penalize zero-diag EXC', type(ex).__name__, ex)
y0 = solve(*condense(A2, b, x=x, D=D)); print('condense zero rows ok', np.abs(y0[D]-x[D]).max())
# mpc
S = np.array([5]); M = np.array([0, 2]); T = sp.csr_matrix(np.array([[.5, -1.]])); g = np.array([.3])
y = solve(*mpc(A, b, S=S, M=M, T=T, g=g))
r = A @ y - b; U = np.setdiff1d(np.arange(n), np.concatenate((M, S)))
print('mpc constraint %.1e  residual U %.1e  M %.1e  S %.1e' % (abs(y[S] - (T @ y[M] + g)).max(), np.abs(r[U]).max(), np.abs(r[M]).max(), np.abs(r[S]).max()))
# eigen
Msp = sp.random(n, n, density=.5, random_state=4, format='csr'); Msp = (Msp + Msp.T + 4*sp.eye(n)).tocsr()
As = (A + A.T).tocsr()
import scipy.linalg as sl
AII, MII, xx, I = condense(As, Msp, D=D)
ev_c = np.sort(sl.eigvals(AII.toarray(), MII.toarray()).real)
Ae, Me = enforce(As, Msp, D=D)
ev_e = sl.eigvals(Ae.toarray(), Me.toarray()); ev_e = np.sort(ev_e[np.isfinite(ev_e)].real)
print('eig condensed', ev_c.round(4), 'enforced finite', ev_e.round(4))
