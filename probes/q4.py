import numpy as np, warnings, logging
warnings.filterwarnings('ignore'); logging.getLogger('skfem').setLevel(logging.ERROR)
from skfem import *
from skfem.mapping import MappingAffine, MappingIsoparametric
from scipy.spatial import Delaunay
rng = np.random.default_rng(24)
def cmp(m, bnd):
    A = MappingAffine(m); I = MappingIsoparametric(m, m.elem(), bnd)
    d = m.dim(); nt = m.nelements
    X = rng.random((d, 4)) / d
    Xc = rng.random((d, 3, 4)) / d
    tind = np.array([2, 0, 1]); find = rng.choice(m.nfacets, 3, replace=False)
    out = {}
    for name in ['F', 'DF', 'invDF', 'detDF']:
        for label, args in [('shared,None', (X,)), ('shared,tind', (X, tind)), ('percell,tind', (Xc, tind))]:
            try:
                a = getattr(A, name)(*args); b = getattr(I, name)(*args)
                out[name + ':' + label] = '%.0e' % np.abs(a - b).max() if a.shape == b.shape else 'SHAPE %s %s' % (a.shape, b.shape)
            except Exception as ex: out[name + ':' + label] = 'EXC ' + str(ex)[:40]
    x = A.F(Xc, tind)
    out['invF'] = '%.0e' % np.abs(A.invF(x, tind) - I.invF(x, tind)).max()
    Xf = rng.random((d-1, 4)) / max(d-1, 1) if d > 1 else np.zeros((0, 1))
    for name in ['G', 'detDG']:
        for label, args in [('None', (Xf,)), ('find', (Xf, find))]:
            try:
                a = getattr(A, name)(*args); b = getattr(I, name)(*args)
                out[name + ':' + label] = '%.0e' % np.abs(a - b).max() if a.shape == b.shape else 'SHAPE %s %s' % (a.shape, b.shape)
            except Exception as ex: out[name + ':' + label] = 'EXC ' + str(ex)[:40]
    # normals
    ti = m.f2t[0, find]; Y = A.invF(A.G(Xf, find), ti)
    na = A.normals(Y, ti, find, m.t2f); ni = I.normals(Y, ti, find, m.t2f)
    out['normals'] = '%.0e' % np.abs(na - ni).max()
    return out
p = rng.random((2, 9)); mt = MeshTri(p, Delaunay(p.T).simplices.T)
print('tri', cmp(mt, ElementLineP1()))
p3 = rng.random((3, 8)); mT = MeshTet(p3, Delaunay(p3.T).simplices.T)
print('tet', cmp(mT, ElementTriP1()))
