import numpy as np, warnings, logging, itertools
warnings.filterwarnings('ignore'); logging.getLogger('skfem').setLevel(logging.ERROR)
from skfem import *
from scipy.spatial import Delaunay
rng = np.random.default_rng(70)
def topo(m):
    rd = m.elem.refdom; fac = {}; edg = {}
    for c in range(m.nelements):
        for loc in rd.facets: fac.setdefault(frozenset(int(m.t[i, c]) for i in loc), []).append(c)
        for loc in (rd.edges or []): edg.setdefault(frozenset(int(m.t[i, c]) for i in loc), []).append(c)
    return fac, edg
def check(m):
    errs = []
    fac, edg = topo(m); rd = m.elem.refdom
    keys = [frozenset(map(int, m.facets[:, f])) for f in range(m.nfacets)]
    if len(set(keys)) != len(keys) or set(keys) != set(fac): errs.append('facets')
    for c in range(m.nelements):
        for s_, loc in enumerate(rd.facets):
            if keys[m.t2f[s_, c]] != frozenset(int(m.t[i, c]) for i in loc): errs.append('t2f'); break
    for f, k in enumerate(keys):
        a, b = map(int, m.f2t[:, f]); cells = fac[k]
        if ({a, b} - {-1}) != set(cells) or a == -1 or (b == -1) != (len(cells) == 1): errs.append('f2t'); break
    bf = {f for f, k in enumerate(keys) if len(fac[k]) == 1}
    if set(m.boundary_facets().tolist()) != bf: errs.append('boundary_facets')
    bn = set().union(*[keys[f] for f in bf]) if bf else set()
    if set(m.boundary_nodes().tolist()) != bn: errs.append('boundary_nodes')
    if set(m.interior_nodes().tolist()) != set(range(m.nvertices)) - bn: errs.append('interior_nodes')
    if rd.edges:
        ek = [frozenset(map(int, m.edges[:, e])) for e in range(m.nedges)]
        if len(set(ek)) != len(ek) or set(ek) != set(edg): errs.append('edges')
        for c in range(m.nelements):
            for s_, loc in enumerate(rd.edges):
                if ek[m.t2e[s_, c]] != frozenset(int(m.t[i, c]) for i in loc): errs.append('t2e'); break
        # boundary edges = edges of boundary facets
        be = set()
        for f in bf:
            vs = [int(v) for v in m.facets[:, f]]
            vs = list(dict.fromkeys(vs))
            n = len(vs)
            pairs = itertools.combinations(vs, 2) if n == 3 else [(vs[i], vs[(i+1) % n]) for i in range(n)]
            for a, b in pairs: be.add(frozenset((a, b)))
        be &= set(ek)
        if {ek[e] for e in m.boundary_edges()} != be: errs.append('boundary_edges')
        if {ek[e] for e in m.interior_edges()} != set(ek) - be: errs.append('interior_edges')
        # f2e
        if m.bndelem is not None:
            for f in range(m.nfacets):
                vs = [int(v) for v in m.facets[:, f]]; n = len(vs)
                exp = {frozenset(p) for p in (itertools.combinations(vs, 2) if n == 3 else [(vs[i], vs[(i+1) % n]) for i in range(n)])}
                if {ek[e] for e in m.f2e[:, f]} != exp: errs.append('f2e'); break
    # incidence
    P = m.p2t.toarray()
    if not all(set(np.nonzero(P[c])[0].tolist()) == set(map(int, m.t[:, c])) for c in range(m.nelements)): errs.append('p2t')
    Pf = m.p2f.toarray()
    if not all(set(np.nonzero(Pf[f])[0].tolist()) == set(keys[f]) for f in range(m.nfacets)): errs.append('p2f')
    return errs
def holes(m, cls):
    keep = rng.choice(m.nelements, max(1, int(m.nelements * .7)), replace=False)
    t = m.t[:, keep]; u, inv = np.unique(t, return_inverse=True)
    return cls(m.p[:, u], inv.reshape(t.shape))
def renum(m, cls):
    vp = rng.permutation(m.nvertices); return cls(m.p[:, vp], np.argsort(vp)[m.t][:, rng.permutation(m.nelements)])
from collections import Counter
cnt = Counter()
for trial in range(60):
    p = rng.random((2, rng.integers(5, 14))); mt = MeshTri(p, Delaunay(p.T).simplices.T)
    p3 = rng.random((3, rng.integers(5, 10))); mT = MeshTet(p3, Delaunay(p3.T).simplices.T)
    for name, m in [('tri', mt), ('tri-holes', holes(mt, MeshTri)), ('tet', mT), ('tet-holes', holes(mT, MeshTet)), ('hex', renum(MeshHex().refined(1), MeshHex)), ('hex-holes', holes(MeshHex().refined(1), MeshHex)),
                    ('quad', renum(MeshQuad().refined(2), MeshQuad)), ('quad-holes', holes(MeshQuad().refined(2), MeshQuad)), ('wedge', mt * MeshLine(np.array([0., 1., 2.]))), ('line', MeshLine(np.sort(rng.random(6))))]:
        e = check(m); cnt[(name, tuple(e))] += 1
for k, v in sorted(cnt.items()): print(k, v)
