import numpy as np, warnings, logging
warnings.filterwarnings('ignore'); logging.getLogger('skfem').setLevel(logging.ERROR)
from skfem import *
from skfem.helpers import *
from scipy.spatial import Delaunay
rng = np.random.default_rng(15)
p = rng.random((2, 12)); m = MeshTri(p, Delaunay(p.T).simplices.T)
# interior points
ti = rng.integers(0, m.nelements, 9); w = rng.dirichlet([2,2,2], 9).T
x = sum(m.p[:, m.t[k, ti]] * w[k] for k in range(3))
def ref_eval(basis, u, x):
    # brute force locate + shared X path per point
    out = []
    mp = basis.mapping
    for j in range(x.shape[1]):
        for c in range(m.nelements):
            tri = m.p[:, m.t[:, c]]; T = np.array([tri[:,1]-tri[:,0], tri[:,2]-tri[:,0]]).T
            lam = np.linalg.solve(T, x[:, j]-tri[:,0])
            if lam.min() > -1e-12 and lam.sum() < 1+1e-12: break
        X = lam[:, None]
        val = sum(u[basis.element_dofs[i, c]] * np.array(type(basis.elem)(*getattr(basis.elem,'_args',())).gbasis(mp, X, i, tind=np.array([c]))[0]) if False else
                  u[basis.element_dofs[i, c]] * np.array(basis.elem.gbasis(mp, X, i, tind=np.array([c]))[0]) for i in range(basis.Nbfun))
        out.append(val[..., 0, 0])
    return np.array(out)
for e in [ElementTriP2(), ElementVector(ElementTriP2()), ElementVector(ElementVector(ElementTriP1())), ElementTriRT1(), ElementTriN2(), ElementDG(ElementTriP1()), ElementTriP1()*ElementTriP2()]:
    b = Basis(m, e); u = rng.standard_normal(b.N)
    try:
        got = b.interpolator(u)(x)
        ref = ref_eval(b, u, x)   # (npts, comps...)
        ref = np.moveaxis(ref, 0, -1)
        print(type(e).__name__, got.shape, ref.shape, '%.1e' % np.abs(got - ref).max())
    except Exception as ex: print(type(e).__name__, 'EXC', type(ex).__name__, str(ex)[:100])
# quadrature point agreement
b = Basis(m, ElementVector(ElementTriP2())); u = rng.standard_normal(b.N)
xx = np.array(b.global_coordinates()); print('qp agree %.1e' % np.abs(b.interpolator(u)(xx.reshape(2,-1)).reshape(2, *xx.shape[1:]) - np.array(b.interpolate(u))).max())
# C10 normals curved: divergence theorem on MeshTri2 circle, and outward
mc = MeshTri2.init_circle(2)
fb = FacetBasis(mc, ElementTriP2()); cb = Basis(mc, ElementTriP2())
print('curved div thm', Functional(lambda w: dot(w.x, w.n)).assemble(fb)/2, Functional(lambda w: 1.+0*w.x[0]).assemble(cb), np.pi)
print('unit normal', np.abs(np.sqrt(dot(fb.normals, fb.normals)) - 1).max(), 'outward', (dot(fb.normals, fb.global_coordinates()) > 0).all())
# facets_around a subdomain, interior
sub = np.arange(0, mc.nelements, 3)
ob = mc.facets_around(sub)
fb = FacetBasis(mc, ElementTriP2(), facets=ob)
print('facets_around div', Functional(lambda w: dot(w.x, w.n)).assemble(fb)/2, Functional(lambda w: 1.+0*w.x[0]).assemble(Basis(mc, ElementTriP2(), elements=sub)))
