import numpy as np, warnings
warnings.filterwarnings('ignore')
from skfem import *
from skfem.helpers import *
from scipy.spatial import Delaunay
rng = np.random.default_rng(2)
p = rng.random((2, 14)); m = MeshTri(p, Delaunay(p.T).simplices.T)

def chk(ub, vb, form, fun, **kw):
    A = BilinearForm(form).assemble(ub, vb, **kw)
    u = rng.standard_normal(ub.N); v = rng.standard_normal(vb.N)
    lhs = v @ (A @ u)
    rhs = Functional(fun).assemble(ub, uh=ub.interpolate(u), vh=vb.interpolate(v), **kw)
    # linear form consistency
    bvec = LinearForm(lambda v_, w: form(w['uh'], v_, w)).assemble(vb, uh=ub.interpolate(u), **kw)
    return abs(lhs - rhs) / (1 + abs(rhs)), abs(bvec @ v - rhs) / (1 + abs(rhs)), A.shape

form = lambda u, v, w: u.grad[0] * v + 2 * u * v.grad[1] * w.x[0]
fun = lambda w: form(w['uh'], w['vh'], w)
sub = np.array([1, 5, 3, 7])
for (eu, ev) in [(ElementTriP2(), ElementTriP1()), (ElementTriP1(), ElementTriP3()), (ElementTriMini(), ElementTriP2())]:
    ub = Basis(m, eu, intorder=6); vb = Basis(m, ev, intorder=6)
    print('cell', chk(ub, vb, form, fun))
    ub = Basis(m, eu, intorder=6, elements=sub); vb = Basis(m, ev, intorder=6, elements=sub)
    print('subset', chk(ub, vb, form, fun))
    ub = FacetBasis(m, eu, intorder=6); vb = FacetBasis(m, ev, intorder=6)
    print('facet', chk(ub, vb, form, fun))
    ub = InteriorFacetBasis(m, eu, intorder=6, side=0); vb = InteriorFacetBasis(m, ev, intorder=6, side=1)
    print('ifacet', chk(ub, vb, form, fun))
# threads
for nth in [1,2,3,5,7,40]:
    ub = Basis(m, ElementTriP2(), intorder=6); vb = Basis(m, ElementTriP1(), intorder=6)
    A0 = BilinearForm(form).assemble(ub, vb)
    A1 = BilinearForm(form, nthreads=nth).assemble(ub, vb)
    print(nth, abs(A0 - A1).max())
# complex
A = BilinearForm(lambda u, v, w: 1j * u * v + u.grad[0]*v, dtype=np.complex128).assemble(Basis(m, ElementTriP1()))
print(A.dtype, abs(A.imag).sum() > 0)
