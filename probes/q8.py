import numpy as np, warnings, logging, itertools
warnings.filterwarnings('ignore'); logging.getLogger('skfem').setLevel(logging.ERROR)
from skfem import *
from scipy.spatial import Delaunay
rng = np.random.default_rng(28)
def ents(m):
    rd = m.elem.refdom
    V = [set(map(int, m.t[:, c])) for c in range(m.nelements)]
    F = [{frozenset(int(m.t[i, c]) for i in loc) for loc in rd.facets} for c in range(m.nelements)]
    E = [{frozenset(int(m.t[i, c]) for i in loc) for loc in (rd.edges or [])} for c in range(m.nelements)]
    return V, F, E
def c04(m, e):
    b = Basis(m, e, intorder=3)
    ed = b.element_dofs; N = b.N
    out = []
    if not np.array_equal(np.unique(ed), np.arange(N)): out.append('gaps')
    V, F, E = ents(m)
    # entity -> dof sets from tables
    fkey = [frozenset(map(int, m.facets[:, f])) for f in range(m.nfacets)]
    ekey = [frozenset(map(int, m.edges[:, k])) for k in range(m.nedges)] if m.dim() == 3 else []
    fd = {fkey[f]: set(b.facet_dofs[:, f].tolist()) for f in range(m.nfacets)} if b.facet_dofs.size else {}
    edd = {ekey[k]: set(b.edge_dofs[:, k].tolist()) for k in range(len(ekey))} if b.edge_dofs.size else {}
    nd = {v: set(b.nodal_dofs[:, v].tolist()) for v in range(m.nvertices)} if b.nodal_dofs.size else {}
    for c1, c2 in itertools.combinations(range(m.nelements), 2):
        shared = set(ed[:, c1].tolist()) & set(ed[:, c2].tolist())
        exp = set()
        for v in V[c1] & V[c2]: exp |= nd.get(v, set())
        for f in F[c1] & F[c2]: exp |= fd.get(f, set())
        for k in E[c1] & E[c2]: exp |= edd.get(k, set())
        if shared != exp: out.append('sharing mismatch %d %d' % (c1, c2)); break
    return out
p = rng.random((2, 9)); mt = MeshTri(p, Delaunay(p.T).simplices.T)
p3 = rng.random((3, 7)); mT = MeshTet(p3, Delaunay(p3.T).simplices.T)
mh = MeshHex().refined(1); mq = MeshQuad().refined(1)
for m, es in [(mt, [ElementTriP4(), ElementTriRT2(), ElementVector(ElementTriP2()), ElementDG(ElementTriP2()), ElementTriP2()*ElementTriRT1()*ElementTriP0(), ElementTriArgyris(), ElementTriMini()*ElementTriMini()]),
              (mT, [ElementTetP2(), ElementTetCCR(), ElementTetN1()*ElementTetRT1(), ElementVector(ElementTetCCR()), ElementDG(ElementTetCCR()), ElementTetCCR()*ElementTetP2()*ElementTetP0()]),
              (mh, [ElementHex2(), ElementHexS2(), ElementVector(ElementHex2()), ElementHex2()*ElementHexRT1(), ElementDG(ElementHex2())]),
              (mq, [ElementQuadP(4), ElementQuad2()*ElementQuadRT1()])]:
    for e in es:
        name = type(e).__name__ + ('(' + ','.join(type(x).__name__ for x in getattr(e, 'elems', [])) + ')' if hasattr(e, 'elems') else '') + ('<' + type(e.elem).__name__ + '>' if hasattr(e, 'elem') else '')
        print(type(m).__name__, name, c04(m, e) or 'ok')
# C07 selector equivalence
m = mT.with_boundaries({'a': np.array([1, 4, 7])}).with_subdomains({'s': np.array([0, 2])})
b = Basis(m, ElementTetCCR())
mid = m.p[:, m.facets[:, [1, 4, 7]]].mean(1)
pred = lambda x: np.any([np.linalg.norm(x - mid[:, [k]], axis=0) < 1e-12 for k in range(3)], axis=0)
sels = [np.array([1, 4, 7]), 'a', pred, [1, 4, 7], (np.array([1]), np.array([4, 7])), {'a'}, [np.array([7, 4]), 1]]
ref = b.get_dofs(sels[0]).flatten()
print('C07 equivalence', [np.array_equal(b.get_dofs(s).flatten(), ref) for s in sels])
print('elements', np.array_equal(b.get_dofs(elements='s').flatten(), b.get_dofs(elements=np.array([0, 2])).flatten()), np.array_equal(b.get_dofs(elements=[0, 2]).flatten(), np.unique(b.element_dofs[:, [0, 2]])))
print('nodes', b.get_dofs(nodes=np.array([0, 3])).flatten(), b.nodal_dofs[:, [0, 3]].flatten())
print('boundary default == topo', np.array_equal(b.get_dofs().flatten(), b.get_dofs(m.boundary_facets()).flatten()))
