import numpy as np, itertools, sys, logging, warnings
warnings.filterwarnings('ignore')
from q1 import *
from collections import Counter
res = Counter()
def run(m, label, subsets):
    mt = rand_tags(m)
    for marked in subsets:
        marked = np.array(marked, dtype=np.int64)
        try:
            new = mt.refined(marked)
        except Exception as ex:
            res[(label, 'EXC ' + type(ex).__name__ + ' ' + str(ex)[:50])] += 1; continue
        e, parent = validity(m, new, marked=marked, uniform=False)
        te = check_tags(mt, new, parent) if parent.min() >= 0 else []
        for x in e: res[(label, 'geom: ' + x.split(' ')[0] + ' ' + x.split(' ')[1] if ' ' in x else x)] += 1
        for x in te: res[(label, 'tags: ' + ' '.join(x.split(' ')[:3]))] += 1
        if not e and not te: res[(label, 'ok')] += 1
# triangles: all subsets of 6-cell meshes
for seed in range(3):
    rng2 = np.random.default_rng(seed)
    p = rng2.random((2, 6)); m = MeshTri(p, Delaunay(p.T).simplices.T)
    n = m.nelements
    subs = [s for k in range(0, n+1) for s in itertools.combinations(range(n), k)]
    run(m, 'tri', subs[:200])
run(MeshTri.init_sqsymmetric(), 'tri-ties', [s for k in range(0, 4) for s in itertools.combinations(range(8), k)])
# tets
run(MeshTet(), 'tet-default', [s for k in range(0, 6) for s in itertools.combinations(range(5), k)])
p3 = np.random.default_rng(5).random((3, 6)); mT = MeshTet(p3, Delaunay(p3.T).simplices.T)
run(mT, 'tet-delaunay', [s for k in range(0, 4) for s in itertools.combinations(range(mT.nelements), k)][:60])
# line
ml = MeshLine(np.array([0., .2, .7, 1.]))
run(ml, 'line', [s for k in range(0, 4) for s in itertools.combinations(range(3), k)])
# second order
run(MeshTri2.from_mesh(MeshTri.init_symmetric()), 'tri2', [(0,), (1, 2)])
run(MeshTet2.from_mesh(MeshTet()), 'tet2', [(0,), (1, 2)])
for k, v in sorted(res.items()): print(k, v)
# history
m = MeshTri.init_symmetric().with_subdomains({'s': np.array([0, 2])})
hist_ok = True
for step in range(6):
    old = m
    if rng.random() < .3: m = m.refined()
    else: m = m.refined(rng.choice(m.nelements, max(1, m.nelements//4), replace=False))
    e, parent = validity(old, m, uniform=False)
    te = check_tags(old, m, parent) if parent.min() >= 0 else []
    if e or te: hist_ok = False; print('history step', step, e, te)
print('tri history ok', hist_ok, m.nelements)
