import numpy as np, warnings, itertools
warnings.filterwarnings('ignore')
from skfem import *
from skfem.helpers import *
from scipy.spatial import Delaunay
rng = np.random.default_rng(5)
# --- C19 tolocal with rectangular / nonsymmetric
p = rng.random((2, 8)); m = MeshTri(p, Delaunay(p.T).simplices.T)
ub = Basis(m, ElementTriP2(), intorder=4); vb = Basis(m, ElementTriP1(), intorder=4)
form = BilinearForm(lambda u, v, w: u.grad[0] * v)
coo = form.elemental(ub, vb)
A = form.assemble(ub, vb).toarray()
loc = coo.tolocal()
print('local shape', loc.shape, 'local_shape', coo.local_shape)
B = np.zeros_like(A)
try:
    for e in range(m.nelements):
        for i in range(vb.Nbfun):
            for j in range(ub.Nbfun):
                B[vb.element_dofs[i, e], ub.element_dofs[j, e]] += loc[e, i, j]
    print('rect scatter err', abs(A - B).max())
except Exception as ex: print('EXC', ex)
coo = form.elemental(ub, ub); A = form.assemble(ub).toarray(); loc = coo.tolocal(); B = np.zeros_like(A); Bt = np.zeros_like(A)
for e in range(m.nelements):
    for i in range(ub.Nbfun):
        for j in range(ub.Nbfun):
            B[ub.element_dofs[i, e], ub.element_dofs[j, e]] += loc[e, i, j]
            Bt[ub.element_dofs[i, e], ub.element_dofs[j, e]] += loc[e, j, i]
print('square nonsym scatter err', abs(A-B).max(), 'transposed', abs(A-Bt).max())
x = rng.standard_normal(ub.N); print('dot', abs(coo.dot(x) - A @ x).max(), 'toarray', abs(coo.toarray() - A).max())
# --- C20 jax det
from skfem.autodiff.helpers import det as jdet
from skfem.helpers import det as ndet, inv as ninv
M = rng.standard_normal((3,3,4,5))
print('jax det3 err', abs(np.array(jdet(M)) - np.linalg.det(np.moveaxis(M,(0,1),(-2,-1)))).max(), 'np det3 err', abs(ndet(M) - np.linalg.det(np.moveaxis(M,(0,1),(-2,-1)))).max())
print('np inv3 err', abs(np.moveaxis(ninv(M),(0,1),(-2,-1)) - np.linalg.inv(np.moveaxis(M,(0,1),(-2,-1)))).max())
M2 = rng.standard_normal((2,2,4,5))
print('np inv2 err', abs(np.moveaxis(ninv(M2),(0,1),(-2,-1)) - np.linalg.inv(np.moveaxis(M2,(0,1),(-2,-1)))).max())
# --- C18 matmul with list
m1 = MeshTri(); m2 = MeshTri().translated((1.,0.)); m3 = MeshTri().translated((2., 0.))
L = m1 @ [m2, m3]
for k, mm in enumerate(L): print('matmul list mesh', k, sorted(map(tuple, mm.p[:, mm.t].mean(1).T.round(3).tolist())))
# --- C02 facet exactness tet
pt = rng.random((3, 9)); mt = MeshTet(pt, Delaunay(pt.T).simplices.T)
fb = FacetBasis(mt, ElementTetP1(), intorder=3)
vol = Functional(lambda w: 1. + 0*w.x[0]).assemble(Basis(mt, ElementTetP1()))
print('div thm', Functional(lambda w: dot(w.x, w.n)).assemble(fb) / 3, vol)
print('x^3 flux', Functional(lambda w: w.x[0]**3 * w.n[0]).assemble(fb), Functional(lambda w: 3*w.x[0]**2).assemble(Basis(mt, ElementTetP1(), intorder=2)))
