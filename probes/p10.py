import numpy as np, warnings
warnings.filterwarnings('ignore')
from skfem import *
from skfem.helpers import *
rng = np.random.default_rng(10)
m0 = MeshTri.init_sqsymmetric().refined(1)
p = m0.p.copy(); I = m0.interior_nodes(); p[:, I] += 0.08*(rng.random((2, len(I)))-.5)
vp = rng.permutation(p.shape[1]); mt = MeshTri(p[:, vp], np.argsort(vp)[m0.t][:, rng.permutation(m0.nelements)])
def jumps(m, e, io=6):
    b0 = InteriorFacetBasis(m, e, side=0, intorder=io); b1 = InteriorFacetBasis(m, e, side=1, intorder=io)
    x = rng.standard_normal(b0.N)
    u0 = b0.interpolate(x); u1 = b1.interpolate(x)
    sv = np.abs(np.array(u0)).max(); sg = np.abs(u0.grad).max()
    return np.abs(np.array(u0)-np.array(u1)).max()/sv, np.abs(u0.grad - u1.grad).max()/sg, sv, sg
for E in [ElementTriArgyris, ElementTriHermite, ElementTriMorley, ElementTri15ParamPlate, ElementTriP1G, ElementTriP2G]:
    print(E.__name__, 'rel val %.1e rel grad %.1e  (scales %.1e %.1e)' % jumps(mt, E()))
print('structured unrenumbered:')
for E in [ElementTriArgyris, ElementTriHermite]:
    print(E.__name__, 'rel val %.1e rel grad %.1e  (scales %.1e %.1e)' % jumps(MeshTri(p, m0.t), E()))
# Morley: vertex values and midpoint normal derivative continuity
e = ElementTriMorley()
q = (np.array([[.5]]), np.array([1.]))
b0 = InteriorFacetBasis(mt, e, side=0, quadrature=q); b1 = InteriorFacetBasis(mt, ElementTriMorley(), side=1, quadrature=q)
x = rng.standard_normal(b0.N); u0 = b0.interpolate(x); u1 = b1.interpolate(x); n = b0.normals
print('Morley midpoint dn jump %.1e' % np.abs(dot(u0.grad, n) - dot(u1.grad, n)).max())
q = (np.array([[0., 1.]]), np.array([.5, .5]))
b0 = InteriorFacetBasis(mt, ElementTriMorley(), side=0, quadrature=q); b1 = InteriorFacetBasis(mt, ElementTriMorley(), side=1, quadrature=q)
u0 = b0.interpolate(x); u1 = b1.interpolate(x)
print('Morley vertex val jump %.1e' % np.abs(np.array(u0) - np.array(u1)).max())
