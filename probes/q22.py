import numpy as np, warnings, logging
warnings.filterwarnings('ignore'); logging.getLogger('skfem').setLevel(logging.ERROR)
from skfem import *
from skfem.helpers import *
rng = np.random.default_rng(60)
def curved(cls2, m1, amp):
    M = cls2.from_mesh(m1); p = M.p.copy(); nv = m1.nvertices
    p[:, nv:] += amp * (rng.random(p[:, nv:].shape) - .5)
    return cls2(p, M.t)
def renum(m, cls, rots=None):
    vp = rng.permutation(m.nvertices); t = m.t.copy()
    return cls(m.p[:, vp], np.argsort(vp)[t][:, rng.permutation(m.nelements)])
cases = [('quad2', curved(MeshQuad2, renum(MeshQuad().refined(1), MeshQuad), .04), ElementQuad2),
         ('tet2', curved(MeshTet2, renum(MeshTet().refined(1), MeshTet), .03), ElementTetP2),
         ('hex2', curved(MeshHex2, renum(MeshHex().refined(1), MeshHex), .03), ElementHex2),
         ('tri2', curved(MeshTri2, renum(MeshTri.init_sqsymmetric(), MeshTri), .04), ElementTriP2)]
for name, m, E in cases:
    d = m.dim()
    cb = Basis(m, E(), intorder=6 if d == 3 else 8); fb = FacetBasis(m, E(), intorder=6 if d == 3 else 8)
    vol = Functional(lambda w: 1. + 0*w.x[0]).assemble(cb); flux = Functional(lambda w: dot(w.x, w.n)).assemble(fb) / d
    nrm = np.abs(np.sqrt(dot(fb.normals, fb.normals)) - 1).max()
    # conformity of the element across curved interior facets
    b0 = InteriorFacetBasis(m, E(), side=0, intorder=4); b1 = InteriorFacetBasis(m, E(), side=1, intorder=4); z = rng.standard_normal(b0.N)
    jump = np.abs(np.array(b0.interpolate(z)) - np.array(b1.interpolate(z))).max()
    xgap = np.abs(np.array(b0.global_coordinates()) - np.array(b1.global_coordinates())).max()
    # geometry itself is an isoparametric field: x as FE function equals global coordinates
    mp = m.mapping(); X = rng.random((d, 5)) * (1/d if name in ('tet2', 'tri2') else 1.)
    x = mp.F(X); Xb = mp.invF(x, tind=np.arange(m.nelements)); rt = np.abs(Xb - X[:, None, :]).max()
    # single-cell divergence theorem via facets_around
    c = np.array([int(rng.integers(m.nelements))]); ob = m.facets_around(c); f1 = FacetBasis(m, E(), facets=ob, intorder=6 if d == 3 else 8)
    v1 = Functional(lambda w: 1. + 0*w.x[0]).assemble(Basis(m, E(), elements=c, intorder=6 if d == 3 else 8)); fl1 = Functional(lambda w: dot(w.x, w.n)).assemble(f1) / d
    print('%-6s vol %.6f flux %.6f | |n|-1 %.0e | jump %.0e coordgap %.0e | invF rt %.0e | one cell %.6f %.6f' % (name, vol, flux, nrm, jump, xgap, rt, v1, fl1))
