import numpy as np, warnings, itertools
warnings.filterwarnings('ignore')
from skfem import *
from skfem.helpers import *
from skfem.refdom import RefHex
rng = np.random.default_rng(4)
# cube symmetries as vertex permutations
P = RefHex.p  # 3x8
perms = []
for ax in itertools.permutations(range(3)):
    for sg in itertools.product([0,1],[0,1],[0,1]):
        Q = P[list(ax)].copy()
        for d in range(3):
            if sg[d]: Q[d] = 1 - Q[d]
        # perm: slot k of new cell is old vertex with coords Q[:,k]
        perm = [int(np.nonzero((P.T == Q[:, k]).all(1))[0][0]) for k in range(8)]
        M = np.zeros((3,3)); 
        for d in range(3): M[d, ax[d]] = -1 if sg[d] else 1
        perms.append((perm, np.linalg.det(M)))
rots = [p for p, d in perms if d > 0]
print(len(perms), len(rots))
def check_cont(m, e, kind):
    b0 = InteriorFacetBasis(m, e, side=0); b1 = InteriorFacetBasis(m, e, side=1)
    x = rng.standard_normal(b0.N)
    u0 = b0.interpolate(x); u1 = b1.interpolate(x); n = b0.normals
    if kind == 'h1': return np.abs(np.array(u0) - np.array(u1)).max()
    if kind == 'hdiv': return np.abs(dot(u0, n) - dot(u1, n)).max()
    if kind == 'hcurl':
        t = np.array([-n[1], n[0]]); return np.abs(dot(u0, t) - dot(u1, t)).max()
m0 = MeshHex().refined(1)
p = m0.p.copy(); I = m0.interior_nodes(); p[:, I] += 0.1*(rng.random((3, len(I)))-.5)
for trial in range(5):
    t = m0.t.copy()
    for k in range(t.shape[1]):
        t[:, k] = t[rots[rng.integers(24)], k]
    vp = rng.permutation(p.shape[1]); inv = np.argsort(vp)
    m = MeshHex(p[:, vp], inv[t][:, rng.permutation(t.shape[1])])
    out = []
    for e, k in [(ElementHex1(), 'h1'), (ElementHex2(), 'h1'), (ElementHexS2(), 'h1'), (ElementHexRT1(), 'hdiv')]:
        out.append('%.1e' % check_cont(m, e, k))
    fb = FacetBasis(m, ElementHex1())
    vol = Functional(lambda w: 1. + 0*w.x[0]).assemble(Basis(m, ElementHex1()))
    flux = Functional(lambda w: dot(w.x, w.n)).assemble(fb)
    print(out, vol, flux/3)
mq0 = MeshQuad().refined(2)
p = mq0.p.copy(); I = mq0.interior_nodes(); p[:, I] += 0.1*(rng.random((2, len(I)))-.5)
for trial in range(5):
    t = mq0.t.copy()
    for k in range(t.shape[1]):
        t[:, k] = np.roll(t[:, k], rng.integers(4))
    vp = rng.permutation(p.shape[1]); inv = np.argsort(vp)
    m = MeshQuad(p[:, vp], inv[t][:, rng.permutation(t.shape[1])])
    out = []
    for e, k in [(ElementQuad1(), 'h1'), (ElementQuad2(), 'h1'), (ElementQuadS2(), 'h1'), (ElementQuadP(3), 'h1'), (ElementQuadP(4), 'h1'), (ElementQuadRT1(), 'hdiv'), (ElementQuadN1(), 'hcurl')]:
        out.append('%.1e' % check_cont(m, e, k))
    print(out)
