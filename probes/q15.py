import numpy as np, warnings, logging, time
warnings.filterwarnings('ignore'); logging.getLogger('skfem').setLevel(logging.ERROR)
from skfem import *
from scipy.spatial import Delaunay
rng = np.random.default_rng(40)
def T(f, n=3):
    t0 = time.perf_counter()
    for _ in range(n): f()
    return (time.perf_counter() - t0) / n
p = rng.random((2, 25)); mt = MeshTri(p, Delaunay(p.T).simplices.T); print('tri cells', mt.nelements)
p3 = rng.random((3, 12)); mT = MeshTet(p3, Delaunay(p3.T).simplices.T); print('tet cells', mT.nelements)
mh = MeshHex().refined(1); mq = MeshQuad().refined(2)
form = BilinearForm(lambda u, v, w: u.grad[0]*v + u*v*w.x[0])
for name, f in [
    ('Delaunay+MeshTri', lambda: MeshTri(p, Delaunay(p.T).simplices.T)),
    ('Basis TriP2', lambda: Basis(mt, ElementTriP2())),
    ('Basis TriP4', lambda: Basis(mt, ElementTriP4())),
    ('FacetBasis TriP2', lambda: FacetBasis(mt, ElementTriP2())),
    ('IntFacetBasis TriP2', lambda: InteriorFacetBasis(mt, ElementTriP2())),
    ('Basis TriArgyris', lambda: Basis(mt, ElementTriArgyris())),
    ('Basis TetP2', lambda: Basis(mT, ElementTetP2())),
    ('Basis TetCCR io4', lambda: Basis(mT, ElementTetCCR(), intorder=4)),
    ('Basis Hex2 (8 cells) io4', lambda: Basis(mh, ElementHex2(), intorder=4)),
    ('Basis Hex2 default', lambda: Basis(mh, ElementHex2())),
    ('IntFacetBasis Hex2 io4', lambda: InteriorFacetBasis(mh, ElementHex2(), intorder=4)),
    ('Basis QuadP(4)', lambda: Basis(mq, ElementQuadP(4), intorder=8)),
    ('Basis composite V(P2)*P1', lambda: Basis(mt, ElementVector(ElementTriP2())*ElementTriP1(), intorder=4)),
]:
    print('%-28s %.3f s' % (name, T(f)))
b = Basis(mt, ElementTriP2()); print('assemble P2xP2 %.3f' % T(lambda: form.assemble(b)))
bh = Basis(mh, ElementHex2(), intorder=4); print('assemble Hex2xHex2 %.3f' % T(lambda: form.assemble(bh), 1))
bc = Basis(mt, ElementVector(ElementTriP2())*ElementTriP1(), intorder=4)
f4 = BilinearForm(lambda u, p_, v, q, w: (u[0]*v[1] + p_*q) * w.x[0]); print('assemble composite %.3f' % T(lambda: f4.assemble(bc), 1))
print('refine tri x2 %.3f' % T(lambda: mt.refined(2)), 'adaptive %.3f' % T(lambda: mt.refined(np.array([0, 3, 5]))), 'tet refine %.3f' % T(lambda: mT.refined()), 'tet adaptive %.3f' % T(lambda: mT.refined(np.array([0, 2]))))
import hypothesis, hypothesis.strategies as st
from hypothesis import given, settings, seed
cnt = [0]
@seed(1)
@settings(max_examples=200, database=None, deadline=None)
@given(st.lists(st.tuples(st.integers(0, 64), st.integers(0, 64)), min_size=5, max_size=20, unique=True), st.integers(0, 3))
def t(pts, k):
    P = np.array(pts, dtype=float).T / 16
    if np.linalg.matrix_rank(np.vstack((P, np.ones(P.shape[1])))) < 3: return
    m = MeshTri(P, Delaunay(P.T, qhull_options='QJ').simplices.T)
    Basis(m, [ElementTriP1(), ElementTriP2(), ElementTriRT1(), ElementTriP3()][k]); cnt[0] += 1
t0 = time.perf_counter(); t(); print('hypothesis 200 examples %.1f s, executed %d' % (time.perf_counter() - t0, cnt[0]))
