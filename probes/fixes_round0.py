"""Round-0 analysis tool (NOT framework code, NOT applied to /repo).

Candidate repairs for the probe findings of DESIGN.md section 8, tried in scratch copies to
learn which of them are "small and safe" (the unedited repository suite still passes) before
any `fix:` commit is made in a later round.

Usage: /venv/bin/python fixes_round0.py check | run [ids...] | probe <id|ALL> <script>
"""
import json
import os
import shutil
import subprocess
import sys
import tempfile
from concurrent.futures import ThreadPoolExecutor

REPO = '/repo'
OUT = os.path.join(os.path.dirname(os.path.abspath(__file__)), 'fixes_round0_results.json')
F = {}


def fix(fid, finding, edits, note=''):
    """edits: list of (path, old, new, expected_count)"""
    F[fid] = dict(id=fid, finding=finding, edits=edits, note=note)


fix('wedge_quadrature', 1, [('skfem/quadrature.py',
    "        A, B, C = np.meshgrid(X1, X2[:1], X2[1:])\n"
    "        Y = np.vstack((A.flatten(order=\"F\"),\n"
    "                       B.flatten(order=\"F\"),\n"
    "                       C.flatten(order=\"F\")))\n"
    "        A, B, C = np.meshgrid(W1, W2, W2)\n"
    "        Z = A * B * C\n"
    "        W = Z.flatten(order=\"F\")\n"
    "        return Y, W\n"
    "    elif refdom == RefQuad:\n",
    "        # tensor product of the triangle rule in (x, y) and the line rule in z\n"
    "        Y = np.vstack((np.tile(X2, len(W1)),\n"
    "                       np.repeat(X1[0], len(W2))))\n"
    "        W = np.repeat(W1, len(W2)) * np.tile(W2, len(W1))\n"
    "        return Y, W\n"
    "    elif refdom == RefQuad:\n", 1)])

fix('line_uniform_subdomains', 2, [('skfem/mesh/mesh_line_1.py',
    "            t=newt,\n            _subdomains=None,\n        )\n",
    "            t=newt,\n"
    "            _subdomains=(None if self._subdomains is None else {\n"
    "                name: np.sort(np.concatenate((2 * ixs, 2 * ixs + 1)))\n"
    "                for name, ixs in self._subdomains.items()\n"
    "            }),\n        )\n", 1)])

fix('second_order_tags', 3, [
    ('skfem/mesh/mesh_tet_2.py',
     "        return MeshTet2.from_mesh(MeshTet1.from_mesh(self).refined())\n",
     "        m = replace(MeshTet1.from_mesh(self),\n"
     "                    _subdomains=self._subdomains)._uniform()\n"
     "        return replace(MeshTet2.from_mesh(m), _subdomains=m._subdomains)\n", 1),
    ('skfem/mesh/mesh_tet_2.py',
     "        return MeshTet2.from_mesh(MeshTet1.from_mesh(self).refined(marked))\n",
     "        m = replace(MeshTet1.from_mesh(self),\n"
     "                    _subdomains=self._subdomains)._adaptive(marked)\n"
     "        return replace(MeshTet2.from_mesh(m), _subdomains=m._subdomains)\n", 1),
    ('skfem/mesh/mesh_tri_2.py',
     "        return MeshTri2.from_mesh(MeshTri1.from_mesh(self).refined(marked))\n",
     "        m = replace(MeshTri1.from_mesh(self),\n"
     "                    _subdomains=self._subdomains)._adaptive(marked)\n"
     "        return replace(MeshTri2.from_mesh(m), _subdomains=m._subdomains)\n", 1),
], note='needs adaptive_tags for the tetrahedral adaptive route to be right')

fix('adaptive_tags', 4, [
    ('skfem/mesh/mesh_tet_1.py',
     "        p[:, :nv] = self.p.copy()\n        t[:, :nt] = self.t.copy()\n",
     "        p[:, :nv] = self.p.copy()\n        t[:, :nt] = self.t.copy()\n"
     "        parent = np.zeros(8 * nt, dtype=np.int32)\n"
     "        parent[:nt] = np.arange(nt, dtype=np.int32)\n", 1),
    ('skfem/mesh/mesh_tet_1.py',
     "            t[:, nt:(nt + nm)] = np.vstack((t2, t1, t3, tnew))\n",
     "            t[:, nt:(nt + nm)] = np.vstack((t2, t1, t3, tnew))\n"
     "            parent[nt:(nt + nm)] = parent[marked]\n", 1),
    ('skfem/mesh/mesh_tet_1.py',
     "        return replace(\n            self,\n            doflocs=p[:, :nv],\n            t=t[:, :nt],\n        )\n",
     "        subdomains = None\n"
     "        if self._subdomains is not None:\n"
     "            subdomains = {\n"
     "                name: np.nonzero(np.isin(parent[:nt], ixs))[0].astype(np.int32)\n"
     "                for name, ixs in self._subdomains.items()\n"
     "            }\n\n"
     "        return replace(\n            self,\n            doflocs=p[:, :nv],\n            t=t[:, :nt],\n"
     "            _boundaries=None,\n            _subdomains=subdomains,\n        )\n", 1),
    ('skfem/mesh/mesh_line_1.py',
     "        return replace(\n            self,\n            doflocs=newp,\n            t=newt,\n        )\n",
     "        subdomains = None\n"
     "        if self._subdomains is not None:\n"
     "            nn, nm = len(nonmarked), len(marked)\n"
     "            new_t = np.zeros((2, t.shape[1]), dtype=np.int32) - 1\n"
     "            new_t[0, nonmarked] = np.arange(nn, dtype=np.int32)\n"
     "            new_t[0, marked] = nn + np.arange(nm, dtype=np.int32)\n"
     "            new_t[1, marked] = nn + nm + np.arange(nm, dtype=np.int32)\n"
     "            subdomains = {\n"
     "                name: np.setdiff1d(np.unique(new_t[:, ixs]), [-1])\n"
     "                for name, ixs in self._subdomains.items()\n"
     "            }\n\n"
     "        return replace(\n            self,\n            doflocs=newp,\n            t=newt,\n"
     "            _subdomains=subdomains,\n        )\n", 1),
    ('skfem/mesh/mesh.py',
     "        if has_subdomains and self.subdomains is None:\n",
     "        if has_subdomains and m.subdomains is None:\n", 1),
])

fix('enforce_empty_rows', 5, [('skfem/utils.py',
    "    count = stop - start\n    idx = np.ones(count.sum(), dtype=np.int32)\n",
    "    count = stop - start\n"
    "    # rows without stored entries would break the index arithmetic below\n"
    "    start, count = start[count > 0], count[count > 0]\n"
    "    idx = np.ones(count.sum(), dtype=np.int32)\n", 1)])

fix('elementglobal_cache', 6, [('skfem/element/element_global.py',
    "        if self.V is None:\n",
    "        if (self.V is None\n"
    "                or getattr(self, '_V_mesh', None) is not mapping.mesh):\n", 1),
    ('skfem/element/element_global.py',
     "            self.V = np.linalg.inv(self._eval_dofs(mapping.mesh))\n",
     "            self.V = np.linalg.inv(self._eval_dofs(mapping.mesh))\n"
     "            self._V_mesh = mapping.mesh\n", 1)])

fix('linepp_cache', 7, [('skfem/element/element_line/element_line_pp.py',
    "        if self.P.shape[1] != X.shape[1]:\n            self.P, self.dP = self._reval_legendre(X[0, :], self.p)\n",
    "        if (not hasattr(self, '_Xp') or self._Xp.shape != X.shape\n"
    "                or (self._Xp != X).any()):\n"
    "            self._Xp = X.copy()\n"
    "            self.P, self.dP = self._reval_legendre(X[0, :], self.p)\n", 1)])

fix('hash_args_shape', 8, [('skfem/generic_utils.py',
    "    return tuple(hash(arg.tobytes())\n",
    "    return tuple(hash((arg.shape, arg.dtype.str, arg.tobytes()))\n", 1)])

fix('solver_closures', 9, [
    ('skfem/utils.py',
     "        params.update(solve_time_kwargs)\n        from scipy.sparse.linalg import eigs\n        return eigs(K, M=M, **params)\n",
     "        from scipy.sparse.linalg import eigs\n        return eigs(K, M=M, **{**params, **solve_time_kwargs})\n", 1),
    ('skfem/utils.py',
     "        params.update(solve_time_kwargs)\n        from scipy.sparse.linalg import eigsh\n        return eigsh(K, M=M, **params)\n",
     "        from scipy.sparse.linalg import eigsh\n        return eigsh(K, M=M, **{**params, **solve_time_kwargs})\n", 1),
    ('skfem/utils.py',
     "        kwargs.update(solve_time_kwargs)\n        return spl.spsolve(A, b, **kwargs)\n",
     "        return spl.spsolve(A, b, **{**kwargs, **solve_time_kwargs})\n", 1),
    ('skfem/utils.py',
     "        kwargs.update(solve_time_kwargs)\n        if 'M' not in kwargs:\n            kwargs['M'] = build_pc_diag(A)\n"
     "        sol, info = krylov(A, b, **{'callback': callback, **kwargs})\n",
     "        kw = {**kwargs, **solve_time_kwargs}\n        if 'M' not in kw:\n            kw['M'] = build_pc_diag(A)\n"
     "        sol, info = krylov(A, b, **{'callback': callback, **kw})\n", 1),
    ('skfem/utils.py',
     "                  + f\"tol={kwargs.get('tol', 'default')} and \"\n                  + f\"atol={kwargs.get('atol', 'default')}\")\n",
     "                  + f\"tol={kw.get('tol', 'default')} and \"\n                  + f\"atol={kw.get('atol', 'default')}\")\n", 1),
    ('skfem/utils.py',
     "        kwargs.update(solve_time_kwargs)\n        maxiters = kwargs['maxiters'] if 'maxiters' in kwargs else 500\n        tol = kwargs['tol'] if 'tol' in kwargs else 1e-10\n",
     "        kw = {**kwargs, **solve_time_kwargs}\n        maxiters = kw['maxiters'] if 'maxiters' in kw else 500\n        tol = kw['tol'] if 'tol' in kw else 1e-10\n", 1),
])

fix('decode_orientation', 10, [('skfem/mesh/mesh.py',
    "                facets = np.sort(self.t2f[mask])\n                cells = mask.nonzero()[1]\n",
    "                facets = self.t2f[mask]\n                cells = mask.nonzero()[1]\n"
    "                order = np.argsort(facets)\n                facets, cells = facets[order], cells[order]\n", 1)])

fix('quadn1_signs', 12, [
    ('skfem/element/element_quad/element_quad_n1.py',
     "            phi = np.array([y - 1.0, nil])\n            dphi = -np.ones_like(x)\n",
     "            phi = np.array([1.0 - y, nil])\n            dphi = np.ones_like(x)\n", 1),
    ('skfem/element/element_quad/element_quad_n1.py',
     "            phi = np.array([y, nil])\n            dphi = -np.ones_like(x)\n",
     "            phi = np.array([-y, nil])\n            dphi = np.ones_like(x)\n", 1)])

fix('local_shape_layout', 13, [('skfem/assembly/form/bilinear_form.py',
    "            (vbasis.Nbfun, ubasis.Nbfun),\n        )\n",
    "            (ubasis.Nbfun, vbasis.Nbfun),\n        )\n", 1)],
    note='local blocks are stored [trial, test, cell]; announce that layout')

fix('jax_det', 14, [('skfem/autodiff/helpers.py',
    "                - A[0, 1] * (A[1, 0] * A[2, 2] -\n                             - A[1, 2] * A[2, 0])\n",
    "                - A[0, 1] * (A[1, 0] * A[2, 2]\n                             - A[1, 2] * A[2, 0])\n", 1)])

fix('matmul_offsets', 15, [('skfem/mesh/mesh.py',
    "            return [\n                cls(p, self._squeeze_if(ixb[self.t])),\n"
    "                *[type(m)(p, self._squeeze_if(ixb[m.t + self.p.shape[1]]))\n"
    "                  for i, m in enumerate(other)],\n            ]\n",
    "            offsets = np.cumsum([self.p.shape[1]]\n"
    "                                + [mesh.p.shape[1] for mesh in other])\n"
    "            return [\n                cls(p, self._squeeze_if(ixb[self.t])),\n"
    "                *[type(m)(p, self._squeeze_if(ixb[m.t + offsets[i]]))\n"
    "                  for i, m in enumerate(other)],\n            ]\n", 1)])

fix('iso_percell_none', 17, [
    ('skfem/mapping/mapping_isoparametric.py',
     "            out = np.zeros((t.shape[1], X.shape[1]))\n",
     "            out = np.zeros((t.shape[1], X.shape[-1]))\n", 2),
    ('skfem/mapping/mapping_isoparametric.py',
     "            out = np.zeros((facets.shape[1], X.shape[1]))\n",
     "            out = np.zeros((facets.shape[1], X.shape[-1]))\n", 2)])

fix('interpolator_trailing', 19, [('skfem/assembly/basis/cell_basis.py',
    "                return out.reshape(*shape[1:])\n",
    "                return out.reshape(self._base_tensor_order + shape[1:])\n", 1)])

fix('composite_dofnames', 20, [('skfem/element/element_composite.py',
    "        for i, e in enumerate(self.elems):  # edge\n"
    "            for j in range(e.nodal_dofs, e.nodal_dofs + e.edge_dofs):\n"
    "                dofnames.append(e.dofnames[j] + \"^\" + str(i + 1))\n"
    "        for i, e in enumerate(self.elems):  # facet\n"
    "            for j in range(e.nodal_dofs + e.edge_dofs,\n"
    "                           e.nodal_dofs + e.edge_dofs + e.facet_dofs):\n"
    "                dofnames.append(e.dofnames[j] + \"^\" + str(i + 1))\n",
    "        # same order as Dofs/DofsView read them: nodal, facet, edge, interior\n"
    "        for i, e in enumerate(self.elems):  # facet\n"
    "            for j in range(e.nodal_dofs, e.nodal_dofs + e.facet_dofs):\n"
    "                dofnames.append(e.dofnames[j] + \"^\" + str(i + 1))\n"
    "        for i, e in enumerate(self.elems):  # edge\n"
    "            for j in range(e.nodal_dofs + e.facet_dofs,\n"
    "                           e.nodal_dofs + e.facet_dofs + e.edge_dofs):\n"
    "                dofnames.append(e.dofnames[j] + \"^\" + str(i + 1))\n", 1)])

fix('tet_quadrature_keys', 21, [('skfem/quadrature.py',
    "    if norder < 1:\n        norder = 1\n    try:\n",
    "    if norder < 1:\n        norder = 1\n"
    "    if norder >= 5:\n"
    "        # the rules tabulated under 5, ..., 9 are exact to degree 4, ..., 8\n"
    "        norder += 1\n    try:\n", 1)],
    note='order 9 becomes unavailable (raises)')


def apply(dst, ids):
    for fid in ids:
        for path, old, new, cnt in F[fid]['edits']:
            f = os.path.join(dst, path)
            src = open(f).read()
            assert src.count(old) == cnt, (fid, path, src.count(old), cnt)
            open(f, 'w').write(src.replace(old, new))


def check():
    d = tempfile.mkdtemp(prefix='vf-fix-', dir='/var/tmp')
    try:
        dst = os.path.join(d, 'repo')
        shutil.copytree(REPO, dst, ignore=shutil.ignore_patterns('.git', '__pycache__', '.benchmarks', 'docs'))
        apply(dst, list(F))
        r = subprocess.run(['/venv/bin/python', '-m', 'flake8', 'skfem', '--select=E9,F63,F7,F82,E501'], cwd=dst,
                           capture_output=True, text=True)
        print(r.stdout[-2000:] or 'flake8 clean (syntax, undefined names, line length)')
        print(len(F), 'fixes apply cleanly together')
    finally:
        shutil.rmtree(d, ignore_errors=True)


def scratch(ids):
    d = tempfile.mkdtemp(prefix='vf-fix-', dir='/var/tmp')
    dst = os.path.join(d, 'repo')
    shutil.copytree(REPO, dst, ignore=shutil.ignore_patterns('.git', '__pycache__', '.benchmarks'))
    apply(dst, ids)
    return d, dst


def run_one(label_ids):
    label, ids = label_ids
    d, dst = scratch(ids)
    try:
        env = dict(os.environ, PYTHONPATH=dst, PYTHONDONTWRITEBYTECODE='1',
                   OMP_NUM_THREADS='1', OPENBLAS_NUM_THREADS='1')
        r = subprocess.run(['/venv/bin/python', '-m', 'pytest', '-q', '-p', 'no:cacheprovider',
                            '--timeout=900', '-n', '4', '--deselect', 'tests/test_mamba.py', 'tests'],
                           cwd=dst, env=env, capture_output=True, text=True)
        lines = r.stdout.strip().splitlines()
        failed = [l for l in lines if l.startswith(('FAILED', 'ERROR'))]
        return dict(id=label, suite='passes' if r.returncode == 0 else 'FAILS', summary=lines[-1:], failed=failed[:8])
    finally:
        shutil.rmtree(d, ignore_errors=True)


def run(ids):
    todo = [(i, [i]) for i in (ids or list(F))]
    if not ids:
        todo.append(('ALL', list(F)))
    res = json.load(open(OUT)) if os.path.exists(OUT) else {}
    with ThreadPoolExecutor(4) as ex:
        for out in ex.map(run_one, todo):
            res[out['id']] = out
            print(out['id'], out['suite'], out['summary'], out['failed'][:3], flush=True)
            json.dump(res, open(OUT, 'w'), indent=1)


def probe(fid, script):
    d, dst = scratch(list(F) if fid == 'ALL' else [fid])
    try:
        env = dict(os.environ, PYTHONPATH=dst + ':' + os.path.dirname(os.path.abspath(script)),
                   PYTHONDONTWRITEBYTECODE='1')
        r = subprocess.run(['/venv/bin/python', script], cwd=d, env=env, capture_output=True, text=True)
        out = [l for l in (r.stdout + r.stderr).splitlines() if 'Warning' not in l]
        print('--- fix', fid, '| probe', os.path.basename(script))
        print('\n'.join(out[-14:]))
    finally:
        shutil.rmtree(d, ignore_errors=True)


if __name__ == '__main__':
    if sys.argv[1] == 'check':
        check()
    elif sys.argv[1] == 'probe':
        probe(sys.argv[2], sys.argv[3])
    else:
        run(sys.argv[2:])
