import numpy as np, warnings, logging
warnings.filterwarnings('ignore'); logging.getLogger('skfem').setLevel(logging.ERROR)
from skfem import *
from skfem.helpers import *
from skfem.models.poisson import laplace, mass
from skfem.models.elasticity import linear_elasticity
from scipy.spatial import Delaunay
rng = np.random.default_rng(14)
def patch(m, e, deg, kind='poisson'):
    d = m.dim()
    # random polynomial of total degree deg: u = sum c_a x^a
    import itertools
    exps = [a for a in itertools.product(range(deg+1), repeat=d) if sum(a) <= deg]
    c = rng.integers(-3, 4, len(exps)).astype(float)
    def u(x): return sum(ci*np.prod([x[k]**a[k] for k in range(d)], axis=0) for ci, a in zip(c, exps))
    def du(x):
        return np.array([sum(ci*a[j]*np.prod([x[k]**(a[k]-(k==j)) if a[k]-(k==j) >= 0 else 0*x[k] for k in range(d)], axis=0) for ci, a in zip(c, exps)) for j in range(d)])
    def lap(x):
        out = 0*x[0]
        for j in range(d):
            for ci, a in zip(c, exps):
                if a[j] >= 2:
                    b = list(a); b[j] -= 2
                    out = out + ci*a[j]*(a[j]-1)*np.prod([x[k]**b[k] for k in range(d)], axis=0)
        return out
    io = 2*deg + 2
    basis = Basis(m, e, intorder=io)
    bf = m.boundary_facets(); nD = rng.integers(1, len(bf)); FD = rng.choice(bf, nD, replace=False); FN = np.setdiff1d(bf, FD)
    K = laplace.assemble(basis) + 2.*mass.assemble(basis)
    f = LinearForm(lambda v, w: (-lap(w.x) + 2.*u(w.x)) * v).assemble(basis)
    if len(FN):
        fbN = FacetBasis(m, e, facets=FN, intorder=io)
        f = f + LinearForm(lambda v, w: dot(du(w.x), w.n) * v).assemble(fbN)
    fbD = FacetBasis(m, e, facets=FD, intorder=io)
    uD = fbD.project(u)
    x = solve(*condense(K, f, x=uD, D=basis.get_dofs(FD)))
    # error in L2
    err = np.sqrt(Functional(lambda w: (w['uh'] - u(w.x))**2).assemble(basis, uh=basis.interpolate(x)))
    nrm = np.sqrt(Functional(lambda w: u(w.x)**2).assemble(basis))
    return err/(1+nrm)
p = rng.random((2, 15)); mt = MeshTri(p, Delaunay(p.T).simplices.T)
p3 = rng.random((3, 9)); mT = MeshTet(p3, Delaunay(p3.T).simplices.T)
A = np.array([[1., .4],[-.3, .8]]); mq = MeshQuad.init_tensor(np.array([0,.2,.7,1.]), np.array([0,.5,1.])); mq = MeshQuad(A @ mq.p, mq.t)
mqg = MeshQuad().refined(2); pp = mqg.p.copy(); I = mqg.interior_nodes(); pp[:, I] += .05*(rng.random((2,len(I)))-.5); mqg = MeshQuad(pp, mqg.t)
for m, e, deg in [(mt, ElementTriP1(), 1), (mt, ElementTriP2(), 2), (mt, ElementTriP3(), 3), (mt, ElementTriP4(), 4), (mt, ElementTriMini(), 1), (mt, ElementTriCCR(), 2),
                  (mT, ElementTetP1(), 1), (mT, ElementTetP2(), 2), (mT, ElementTetCCR(), 2),
                  (mq, ElementQuad1(), 1), (mq, ElementQuad2(), 2), (mq, ElementQuadS2(), 2), (mq, ElementQuadP(3), 3),
                  (mqg, ElementQuad1(), 1), (mqg, ElementQuad2(), 1)]:
    print(type(m).__name__, type(e).__name__, deg, '%.1e' % patch(m, e, deg))
