import numpy as np, warnings
warnings.filterwarnings('ignore')
from skfem import *
from skfem.helpers import *
from scipy.spatial import Delaunay
rng = np.random.default_rng(9)
p = rng.random((2, 12)); mt = MeshTri(p, Delaunay(p.T).simplices.T)
def jumps(m, e):
    b0 = InteriorFacetBasis(m, e, side=0, intorder=4); b1 = InteriorFacetBasis(m, e, side=1, intorder=4)
    x = rng.standard_normal(b0.N)
    u0 = b0.interpolate(x); u1 = b1.interpolate(x)
    return np.abs(np.array(u0)-np.array(u1)).max(), np.abs(u0.grad - u1.grad).max()
for e in [ElementTriArgyris(), ElementTriHermite(), ElementTriMorley(), ElementTri15ParamPlate(), ElementTriP1G(), ElementTriP2G()]:
    try: print(type(e).__name__, 'val %.1e grad %.1e' % jumps(mt, type(e)()))
    except Exception as ex: print(type(e).__name__, 'EXC', str(ex)[:80])
mq = MeshQuad.init_tensor(np.array([0,.3,1.]), np.array([0,.5,.7,1.]))
for e in [ElementQuadBFS(), ElementQuad2G()]:
    try: print(type(e).__name__, 'val %.1e grad %.1e' % jumps(mq, type(e)()))
    except Exception as ex: print(type(e).__name__, 'EXC', str(ex)[:80])
mh = MeshHex.init_tensor(np.array([0,.3,1.]), np.array([0,.5,1.]), np.array([0,.6,1.]))
try: print('HexC1', 'val %.1e grad %.1e' % jumps(mh, ElementHexC1()))
except Exception as ex: print('HexC1 EXC', str(ex)[:80])
ml = MeshLine(np.array([0, .2, .5, 1.]))
print('LineHermite', 'val %.1e grad %.1e' % jumps(ml, ElementLineHermite()))
# CR midpoint continuity
b0 = InteriorFacetBasis(mt, ElementTriCR(), side=0, quadrature=(np.array([[.5]]), np.array([1.]))); b1 = InteriorFacetBasis(mt, ElementTriCR(), side=1, quadrature=(np.array([[.5]]), np.array([1.])))
x = rng.standard_normal(b0.N); print('CR mid %.1e' % np.abs(np.array(b0.interpolate(x)) - np.array(b1.interpolate(x))).max())
# HHJ normal-normal
for e in [ElementTriHHJ0(), ElementTriHHJ1()]:
    b0 = InteriorFacetBasis(mt, e, side=0, intorder=4); b1 = InteriorFacetBasis(mt, e, side=1, intorder=4)
    x = rng.standard_normal(b0.N); n = b0.normals
    s0 = np.array(b0.interpolate(x)); s1 = np.array(b1.interpolate(x))
    nn = lambda s: np.einsum('i...,ij...,j...', n, s, n)
    print(type(e).__name__, 'nn jump %.1e' % np.abs(nn(s0)-nn(s1)).max())
# C12 boundaries on quad with cyclic shifts + renumber
mq0 = MeshQuad().refined(1); t = mq0.t.copy()
for k in range(t.shape[1]): t[:, k] = np.roll(t[:, k], rng.integers(4))
vp = rng.permutation(mq0.p.shape[1]); m = MeshQuad(mq0.p[:, vp], np.argsort(vp)[t])
F = rng.choice(m.nfacets, 5, replace=False)
mm = m.with_boundaries({'a': F}).refined()
old_mid = m.p[:, m.facets[:, F]]
def onseg(pt, seg): 
    a, b = seg[:,0], seg[:,1]; d = b-a; s = np.dot(pt-a, d)/np.dot(d,d); return abs(np.cross(d, pt-a))<1e-12 and -1e-12<=s<=1+1e-12
ok = all(any(onseg(mm.p[:, v], old_mid[:, :, j]) for j in range(len(F))) for f in mm.boundaries['a'] for v in mm.facets[:, f])
print('quad refine boundaries ok', ok, len(mm.boundaries['a']))
# tri same
p = rng.random((2, 9)); m = MeshTri(p, Delaunay(p.T).simplices.T); F = rng.choice(m.nfacets, 5, replace=False)
mm = m.with_boundaries({'a': F}).refined(); old_mid = m.p[:, m.facets[:, F]]
ok = all(any(onseg(mm.p[:, v], old_mid[:, :, j]) for j in range(len(F))) for f in mm.boundaries['a'] for v in mm.facets[:, f])
print('tri refine boundaries ok', ok, len(mm.boundaries['a']))
