import numpy as np, warnings, logging
warnings.filterwarnings('ignore'); logging.getLogger('skfem').setLevel(logging.ERROR)
from skfem import *
from skfem.helpers import *
from scipy.spatial import Delaunay
rng = np.random.default_rng(51)
p = rng.random((2, 9)); m = MeshTri(p, Delaunay(p.T).simplices.T)
b1 = Basis(m, ElementTriP2(), intorder=4); b2 = Basis(m, ElementTriP1(), intorder=4)
cb = b1 * b2
form = BilinearForm(lambda u, p_, v, q, w: u.grad[0]*v + 2*p_*v*w.x[0] + 3*u*q.grad[1] + 4*p_*q)
S = form.assemble(cb)
A11 = BilinearForm(lambda u, v, w: u.grad[0]*v).assemble(b1, b1); A12 = BilinearForm(lambda u, v, w: 2*u*v*w.x[0]).assemble(b2, b1)
A21 = BilinearForm(lambda u, v, w: 3*u*v.grad[1]).assemble(b1, b2); A22 = BilinearForm(lambda u, v, w: 4*u*v).assemble(b2, b2)
B = bmat([[A11, A12], [A21, A22]], 'csr')
print('CompositeBasis * == bmat: %.1e' % abs(S - B).max(), 'N', cb.N, b1.N + b2.N, 'blocks attr', B.blocks)
# same through ElementComposite with split_indices
be = Basis(m, ElementTriP2() * ElementTriP1(), intorder=4); Se = form.assemble(be); ix = be.split_indices()
perm = np.concatenate(ix); print('ElementComposite permuted == bmat: %.1e' % abs(Se[perm][:, perm] - B).max())
x = rng.standard_normal(cb.N); parts = cb.interpolate(x); print('composite basis interpolate parts', len(parts), '%.1e' % np.abs(np.array(parts[1]) - np.array(b2.interpolate(x[b1.N:]))).max())
sp_ = cb.split(x); print('split sizes', [len(a) for a, _ in sp_])
# '@' equal_dofnum: same dof numbering summed
b3 = Basis(m, ElementTriP1(), intorder=4); cb2 = b2 @ b3
try:
    S2 = BilinearForm(lambda u1, u2, v1, v2, w: (u1 + u2) * (v1 + v2)).assemble(cb2)
    M = BilinearForm(lambda u, v, w: u*v).assemble(b2)
    print('@ : shape', S2.shape, 'equals 4*M: %.1e' % abs(S2 - 4*M).max())
except Exception as ex: print('@ EXC', type(ex).__name__, ex)
# bmat with three block columns
C = bmat([[A22, A22, A22], [A22, A22, A22]], 'csr'); print('bmat 3 cols blocks', C.blocks, 'expected cumulative', [A22.shape[1], 2*A22.shape[1]])
