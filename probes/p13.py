import numpy as np, warnings, logging
warnings.filterwarnings('ignore'); logging.getLogger('skfem').setLevel(logging.ERROR)
from skfem import *
rng = np.random.default_rng(13)
def fdX(f, X, k, h=1e-3):
    e = np.zeros_like(X); e[k] = h
    return (-f(X + 2*e) + 8*f(X + e) - 8*f(X - e) + f(X - 2*e)) / (12*h)
def check(m, E, nb=None):
    mp = m.mapping(); d = m.dim()
    X = rng.random((d, 5))*0.5 + 0.1
    if m.refdom.name in ('Triangular','Tetrahedral'): X /= d
    e = E(); nbf = int(e._bfun_counts().sum()) if not hasattr(e,'elems') else None
    DF = np.array([[fdX(lambda Y: mp.F(Y)[i], X, j) for j in range(d)] for i in range(d)])  # (d,d,nt,np)
    invDF = np.linalg.inv(np.moveaxis(DF, (0,1), (-2,-1)))  # (nt,np,d,d)
    worst = {}
    for i in range(nbf):
        g = E().gbasis(mp, X, i)[0]
        val = lambda Y, i=i: np.array(E().gbasis(mp, Y, i)[0])
        if g.grad is not None:
            # d/dX_j of value -> (j, ..., nt, np)
            dref = np.array([fdX(val, X, j) for j in range(d)])
            # global grad_b = sum_j dref_j * invDF[j,b]
            num = np.einsum('j...tp,tpjb->...btp', dref, invDF)
            got = np.array(g.grad)
            if got.ndim == 3: num = num  # scalar: (b,t,p)
            err = np.abs(got - num).max() / (1 + np.abs(num).max()); worst['grad'] = max(worst.get('grad', 0), err)
        if g.div is not None or g.curl is not None:
            dref = np.array([fdX(val, X, j) for j in range(d)])   # (j, a, t, p)
            G = np.einsum('jatp,tpjb->abtp', dref, invDF)
            if g.div is not None:
                err = np.abs(np.array(g.div) - np.einsum('aatp->tp', G)).max() / (1 + np.abs(G).max()); worst['div'] = max(worst.get('div', 0), err)
            if g.curl is not None:
                if d == 2: c = G[1,0] - G[0,1]
                else: c = np.array([G[2,1]-G[1,2], G[0,2]-G[2,0], G[1,0]-G[0,1]])
                err = np.abs(np.array(g.curl) - c).max() / (1 + np.abs(G).max()); worst['curl'] = max(worst.get('curl', 0), err)
        if g.hess is not None:
            gradf = lambda Y, i=i: np.array(E().gbasis(mp, Y, i)[0].grad)
            dref = np.array([fdX(gradf, X, j) for j in range(d)])  # (j, a, t, p)
            H = np.einsum('jatp,tpjb->abtp', dref, invDF)
            err = np.abs(np.array(g.hess) - H).max() / (1 + np.abs(H).max()); worst['hess'] = max(worst.get('hess', 0), err)
    return {k: '%.1e' % v for k, v in worst.items()}
def jig(m, s=0.15):
    p = m.p.copy() + s*(rng.random(m.p.shape)-.5)*m.param(); return type(m)(p, m.t)
mt = jig(MeshTri.init_sqsymmetric()); mq = jig(MeshQuad().refined(1)); mT = jig(MeshTet(), .1); mh = jig(MeshHex().refined(1), .08)
mt2 = MeshTri2.from_mesh(mt); p2 = mt2.p.copy(); p2[:, mt.p.shape[1]:] += 0.03*(rng.random(p2[:, mt.p.shape[1]:].shape)-.5); mt2 = MeshTri2(p2, mt2.t)
for m, Es in [(mt, [ElementTriP2, ElementTriP4, ElementTriRT1, ElementTriRT2, ElementTriBDM1, ElementTriN1, ElementTriN2, ElementTriMorley, ElementTriArgyris, ElementTriHermite]),
              (mt2, [ElementTriP2, ElementTriRT1, ElementTriN1]),
              (mq, [ElementQuad1, ElementQuad2, ElementQuadS2, ElementQuadRT1, ElementQuadN1, lambda: ElementQuadP(3)]),
              (mT, [ElementTetP2, ElementTetRT1, ElementTetN1, ElementTetCCR]),
              (mh, [ElementHex1, ElementHex2, ElementHexRT1])]:
    print(type(m).__name__, 'orientations', np.sign(m.mapping().detDF(np.zeros((m.dim(),1))+.2)).flatten()[:8])
    for E in Es:
        try: print('   ', E().__class__.__name__, check(m, E))
        except Exception as ex: print('   ', E().__class__.__name__, 'EXC', type(ex).__name__, str(ex)[:100])
