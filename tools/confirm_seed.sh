#!/bin/bash
# usage: tools/confirm_seed.sh <Cxx> <n>
# Confirms a sub-agent's seeded change in its scratch worktree (moved to /repo's current HEAD):
# demo passes without, fails with; repository suite passes with. Then stores it under /verif/seeded/<Cxx>-<n>/.
pid=$1; n=$2
base=${SEEDDIR:-/tmp/seed}; k=$((n + ${SEEDOFFSET:-0}))
wt=$base/$pid/wt; out=$base/$pid/out
head=$(git -C /repo rev-parse HEAD)
cd $wt || exit 2
git checkout -q -- . ; git clean -fdq; git checkout -q --detach $head || exit 2
export PYTHONPATH=$wt PYTHONDONTWRITEBYTECODE=1
timeout 600 /venv/bin/python $out/demo$n.py > $base/$pid/demo${n}_without.log 2>&1; rc_without=$?
git apply $out/patch$n.diff 2>/dev/null || git apply --3way $out/patch$n.diff || { echo "$pid-$n: PATCH DOES NOT APPLY"; git checkout -q -- .; exit 3; }
git diff > $base/$pid/patch$n.rebased.diff
timeout 600 /venv/bin/python $out/demo$n.py > $base/$pid/demo${n}_with.log 2>&1; rc_with=$?
timeout 1500 /venv/bin/python -m pytest -q -x -p no:cacheprovider --timeout=900 -n 6 --deselect tests/test_mamba.py tests > $base/$pid/suite$n.log 2>&1; rc_suite=$?
git checkout -q -- . ; git clean -fdq
summary=$(tail -1 $base/$pid/suite$n.log)
echo "$pid-$n: demo_without=$rc_without demo_with=$rc_with suite=$rc_suite ($summary)"
if [ $rc_without -eq 0 ] && [ $rc_with -ne 0 ] && [ $rc_suite -eq 0 ]; then
  d=/verif/seeded/$pid-$k; mkdir -p $d
  cp $base/$pid/patch$n.rebased.diff $d/patch.diff; cp $out/demo$n.py $d/demo.py
  /venv/bin/python - "$pid" "$n" "$head" "$summary" "$base" "$k" <<'PY'
import json, sys
pid, n, head, summary, base, k = sys.argv[1:7]
try: meta = json.load(open(f'{base}/{pid}/out/meta{n}.json'))
except Exception: meta = {}
meta.update(property=pid, confirmed_at_repo_head=head,
            confirmed=dict(demo_without_change='exit 0', demo_with_change='non-zero exit', repository_suite_with_change=summary,
                           how='tools/confirm_seed.sh in the scratch worktree %s/%s/wt (removed afterwards)' % (base, pid)))
json.dump(meta, open(f'/verif/seeded/{pid}-{k}/meta.json', 'w'), indent=1)
PY
  echo "$pid-$n: CONFIRMED and stored as $pid-$k"
else
  echo "$pid-$n: NOT CONFIRMED"
fi
