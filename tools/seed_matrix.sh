#!/bin/bash
# runs every stored seeded change (seeded/Cxx-N/patch.diff) against the quick check of its property in a scratch worktree
# (tools/try_seed.sh) and records which sub-checks report it: tools/seed_matrix_results.txt
cd "$(dirname "$0")/.." || exit 2
out=tools/seed_matrix_results.txt; : > $out
for d in ${SEEDS_ONLY:-$(ls seeded)}; do
  p=${d%%-*}
  res=$(tools/try_seed.sh $p seeded/$d/patch.diff 2>&1)
  rc=$(echo "$res" | grep -o "exit=[0-9]*" | head -1)
  sigs=$(grep "^FAIL" /var/tmp/try_seed.$p.out | /venv/bin/python -c "
import sys, json
seen=[]
for l in sys.stdin:
    try: s=json.loads(l[5:])
    except Exception: continue
    k=s.get('check','?')+': '+s.get('what','?')
    if k not in seen: seen.append(k)
print('; '.join(seen[:4]))")
  echo "$d $rc | $sigs" | tee -a $out
done
