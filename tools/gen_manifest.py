#!/venv/bin/python
"""Regenerates /verif/MANIFEST.json from the table below (keeps it schema-valid at all times).

A property is *claimed* when vf/props/<id>.py exists and its entry below has claimed=True;
every other property is listed under not_applicable with the reason given here.
"""
import json
import os
import subprocess
import sys

HERE = os.path.dirname(os.path.dirname(os.path.abspath(__file__)))

T = {}


def prop(pid, technique, text, note, design, claimed=True, reason=None):
    T[pid] = dict(technique=technique, text=text, note=note, design=design, claimed=claimed, reason=reason)


prop('C08', 'complete enumeration of (cell, order, monomial) against exact rational integrals',
     'Finite domain enumerated completely: every reference cell x every order from -1 to beyond the tables x every '
     'monomial up to that order, judged against exact Fraction integrals (5e-13 relative), plus weight sums, node '
     'containment and raise-outside-the-table. Within the probed orders this is exhaustive, which is the strongest '
     'statement generated search can make.',
     'trusts Python Fractions and numpy float arithmetic; Gauss-Legendre cells are probed up to a stated maximum order',
     'DESIGN.md section 6 C08')

prop('C11', 'Hypothesis mesh strategies vs brute-force set recomputation of every connectivity table',
     'Generated meshes of all ten classes (Delaunay, tensor, simplex-split quads/hexes, extruded prisms, holes, '
     'arbitrary vertex/cell/local numbering); every derived table (facets, edges, t2f, t2e, f2t, f2e, boundary/interior '
     'sets, incidence matrices) is compared with a quadratic-time recomputation from the cell list with Python sets, '
     'and derived predicates are compared across a renumbering. Exploration: a measured sample, no absence claim.',
     'trusts the reference-cell conventions in skfem.refdom and the generators\' conformity by construction',
     'DESIGN.md section 6 C11')

prop('C04', 'Hypothesis meshes x elements (real and synthetic count-only) vs DOF sharing recomputed from the cell list',
     'Generated mesh x element pairs (all registered elements, Vector/DG/Composite wrappers, synthetic elements with '
     'arbitrary DOF counts): gap-freeness, sharing-iff through entity->cells recomputed with sets, table partition and '
     'coherence, DOF locations on their entities (single-valued for nodal elements), shape and sparsity locality of '
     'assembled matrices on cell, subset and boundary bases with trial != test.',
     'trusts numpy/scipy and the facet/edge tables judged by C11; curved cells are excluded from the DOF-location part',
     'DESIGN.md section 6 C04')

prop('C05', 'Hypothesis sparse systems vs dense NumPy algebra; operand checksums',
     'Generated sparse systems (empty constrained rows, missing diagonals, explicit zeros, unsymmetric patterns, '
     'sorted/unsorted CSR, CSC) with every way of giving the split (D, I, shuffled I, DofsView, dict of views), x, '
     'overwrite, diag and penalty; condense/enforce/penalize/solve/mpc results are judged against dense linear '
     'algebra, constrained rows entry by entry, operands by checksums before/after.',
     'kept block diagonally dominant by construction; enforce/penalize on CSR only; dense numpy.linalg is trusted',
     'DESIGN.md section 6 C05')

NOT_YET = 'check under construction in this round; not claimed until it is registered (see DESIGN.md section 9)'


def main():
    props = [json.loads(line) for line in open(os.path.join(HERE, 'properties.jsonl'))]
    checks = []
    na = []
    for p in props:
        pid = p['id']
        e = T.get(pid)
        have = os.path.exists(os.path.join(HERE, 'vf', 'props', pid.lower() + '.py'))
        if e and e['claimed'] and have:
            checks.append(dict(
                property_id=pid,
                quick_cmd=f'./check {pid} quick',
                thorough_cmd=f'./check {pid} thorough',
                evidence_file=f'/verif/evidence/{pid}.json',
                replay_cmd_template=f'./check {pid} --replay {{path}}',
                engine='vf',
                level_claimed=dict(category='exploration', text=e['text'], design_ref=e['design']),
                level_note=e['note'],
                technique=e['technique']))
        else:
            na.append(dict(property_id=pid, reason=(e or {}).get('reason') or NOT_YET))
    man = dict(
        version=1,
        setup_cmd='./setup.sh',
        hooks=dict(guard='SKFEM_VERIF',
                   enable='no hooks are needed: checks import /repo/skfem from the working tree (pure Python, '
                          'nothing to build); ./check exports SKFEM_VERIF=1 for uniformity',
                   baseline_off_cmd='cd /repo && env -u SKFEM_VERIF /venv/bin/python -m pytest -ra -q -p no:cacheprovider '
                                    '--timeout=900 --continue-on-collection-errors',
                   source_commits=[], add_only=True),
        engines=[dict(name='vf', path='/verif/vf', serves_properties=[c['property_id'] for c in checks],
                      kind_free_text='property-based testing: Hypothesis strategies and rule-based state machines over '
                                     'JSON case descriptors, complete enumeration for finite domains, sharded over 16 '
                                     'worker processes; explicit oracles (exact rational integration, exact finite '
                                     'differences, brute-force topology/geometry, dense linear algebra, replay on fresh '
                                     'objects); collect-then-shrink; replay files')],
        checks=checks,
        not_applicable=na,
        notes='Every check: exit 0 held / exit 1 with VIOLATION lines / exit 2 harness error. VERIF_SEED selects the '
              'Hypothesis seeds (sha256 of seed, property, sub-check, shard). known_findings.json is read-only at run time.')
    json.dump(man, open(os.path.join(HERE, 'MANIFEST.json'), 'w'), indent=1)
    # validate with the tooling interpreter when available
    try:
        r = subprocess.run(['python3-vt', '-c',
                            'import json,jsonschema,sys;jsonschema.validate(json.load(open(sys.argv[1])),'
                            'json.load(open("/root/.vp/MANIFEST.schema.json")));print("MANIFEST valid,",sys.argv[2],"checks")',
                            os.path.join(HERE, 'MANIFEST.json'), str(len(checks))], capture_output=True, text=True)
        print(r.stdout.strip() or r.stderr.strip()[-500:])
    except FileNotFoundError:
        print('python3-vt not found; MANIFEST written without schema validation')


if __name__ == '__main__':
    main()
