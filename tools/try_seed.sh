#!/bin/bash
# usage: tools/try_seed.sh <Cxx> <patch.diff> [extra check args]
# Runs the quick check against a scratch worktree of /repo (at /repo's HEAD) carrying the seeded change; /repo itself is
# not touched, so background runs that read /repo are not disturbed.  The worktree is removed afterwards.
pid=$1; patch=$(realpath "$2"); shift 2
wt=/var/tmp/tryseed.$$
git -C /repo worktree add -q --detach "$wt" HEAD || exit 2
cleanup() { git -C /repo worktree remove --force "$wt" 2>/dev/null; git -C /repo worktree prune; }
trap cleanup EXIT
( cd "$wt" && { git apply "$patch" 2>/dev/null || git apply --3way "$patch"; } ) || { echo "PATCH DOES NOT APPLY"; exit 3; }
cd /verif && VF_REPO="$wt" ./check "$pid" quick --no-evidence --no-shrink "$@" > /var/tmp/try_seed.$pid.out 2>&1; rc=$?
echo "exit=$rc"; grep -c VIOLATION /var/tmp/try_seed.$pid.out; grep "^FAIL" /var/tmp/try_seed.$pid.out | cut -c1-220 | head -8
