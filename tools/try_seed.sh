#!/bin/bash
# usage: tools/try_seed.sh <Cxx> <patch.diff> [extra check args]   -- applies a seeded change to /repo, runs the quick check, reverts
pid=$1; patch=$2; shift 2
cd /repo || exit 2
if ! git diff --quiet; then echo "/repo dirty"; exit 2; fi
git apply "$patch" 2>/dev/null || git apply --3way "$patch" || { echo "PATCH DOES NOT APPLY"; git checkout -- . ; exit 3; }
cd /verif && ./check "$pid" quick --no-evidence --no-shrink "$@" > /var/tmp/try_seed.out 2>&1; rc=$?
cd /repo && git reset -q --hard HEAD
echo "exit=$rc"; grep -c VIOLATION /var/tmp/try_seed.out; grep "^FAIL" /var/tmp/try_seed.out | cut -c1-220 | head -8
