#!/bin/bash
# flakiness audit: every registered check, several seeds, fresh processes; prints one line per (property, seed)
cd "$(dirname "$0")/.." || exit 2
props=${PROPS:-"C01 C02 C03 C04 C05 C06 C07 C08 C09 C10 C11 C12 C13 C14 C15 C16 C17 C18 C19 C20"}
seeds=${SEEDS:-"0 2 3 7 12345"}
for s in $seeds; do for p in $props; do
  out=$(VERIF_SEED=$s ./check $p quick --no-evidence 2>&1); rc=$?
  line=$(echo "$out" | grep -E "^$p quick" | cut -c1-160)
  echo "seed=$s $p exit=$rc | $line"
  if [ $rc -ne 0 ]; then echo "$out" | grep -E "^FAIL|^HARNESS|VIOLATION" | cut -c1-300 | head -6; fi
done; done
