#!/venv/bin/python
"""Regenerates the table of seeded changes of rounds 2-5 in DESIGN.md (between the SEEDED-ROUNDS markers) from
tools/seeded_notes.json (what each change is, what it needs, result of the FIRST run, strengthening) and
tools/seed_matrix_results.txt (which sub-checks report it now; written by tools/seed_matrix.sh)."""
import json
import os
import re

HERE = os.path.dirname(os.path.dirname(os.path.abspath(__file__)))
notes = json.load(open(os.path.join(HERE, 'tools', 'seeded_notes.json')))
now = {}
for line in open(os.path.join(HERE, 'tools', 'seed_matrix_results.txt')):
    m = re.match(r'(C\d\d-\d+) exit=(\d+) \| (.*)', line.strip())
    if m:
        now[m.group(1)] = (m.group(2), m.group(3))
rows = ['| seeded | change | needs | first run | strengthening | reported now by (sub-check: what) |', '|---|---|---|---|---|---|']
first = {'caught': 0, 'missed': 0}
for k in sorted(notes, key=lambda s: (s[:3], int(s[4:]))):
    what, needs, fr, st = notes[k]
    first['caught' if fr.startswith('caught') else 'missed'] += 1
    ex, sig = now.get(k, ('?', 'not run'))
    rows.append(f'| {k} | {what} | {needs} | {fr} | {st or "—"} | {"exit " + ex + ": " + (sig or "—")} |')
caught_now = sum(1 for k in notes if now.get(k, ('0',))[0] == '1')
head = (f'Rounds 2 to 6: {len(notes)} changes. First run (before any strengthening): {first["caught"]} reported, {first["missed"]} missed. '
        f'With the checks as committed: {caught_now} of {len(notes)} reported by the quick check of their own property '
        f'(`tools/seed_matrix.sh`, default seed).\n\n')
text = head + '\n'.join(rows) + '\n'
p = os.path.join(HERE, 'DESIGN.md')
c = open(p).read()
b, e = '<!-- SEEDED-ROUNDS-BEGIN -->', '<!-- SEEDED-ROUNDS-END -->'
assert b in c and e in c
c = c[:c.index(b) + len(b)] + '\n' + text + c[c.index(e):]
open(p, 'w').write(c)
print(head)
