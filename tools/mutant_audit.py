#!/venv/bin/python
"""Sensitivity audit (development tool, not a registered check).

Applies each catalogued mutant (probes/mutants_round0.py) to a scratch copy of /repo/skfem under
/var/tmp, runs the property's quick check against it through VF_REPO, and reports whether the check
exits 1 with a VIOLATION line.  usage: tools/mutant_audit.py C01 [C02 ...] [--ids id,id] [--all]
"""
import json
import os
import shutil
import subprocess
import sys
import tempfile
import time

HERE = os.path.dirname(os.path.dirname(os.path.abspath(__file__)))
sys.path.insert(0, os.path.join(HERE, 'probes'))
import mutants_round0 as mr   # noqa

RES = os.path.join(HERE, 'tools', 'mutant_audit_results.json')


def apply(dst, m):
    f = os.path.join(dst, m['path'])
    src = open(f).read()
    pairs = [(m['old'], m['new'])] + [tuple(x) for x in m['extra']]
    for old, new in pairs:
        if src.count(old) != 1:
            return False
        src = src.replace(old, new)
    open(f, 'w').write(src)
    return True


def main():
    args = [a for a in sys.argv[1:] if not a.startswith('--')]
    ids = None
    for a in sys.argv[1:]:
        if a.startswith('--ids='):
            ids = set(a[6:].split(','))
    survivors_only = '--all' not in sys.argv
    prev = json.load(open(os.path.join(HERE, 'probes', 'mutants_round0_results.json')))
    res = json.load(open(RES)) if os.path.exists(RES) else {}
    for m in mr.M:
        if args and m['prop'] not in args:
            continue
        if ids and m['id'] not in ids:
            continue
        suite = prev.get(m['id'], {}).get('suite', '?')
        if survivors_only and not str(suite).startswith('surviv') and not ids:
            continue
        d = tempfile.mkdtemp(prefix='vf-mut-', dir='/var/tmp')
        try:
            dst = os.path.join(d, 'repo')
            os.makedirs(dst)
            shutil.copytree('/repo/skfem', os.path.join(dst, 'skfem'), ignore=shutil.ignore_patterns('__pycache__'))
            if not apply(dst, m):
                print(f"{m['id']:34s} {m['prop']} DOES-NOT-APPLY (source changed by a fix)")
                res[m['id']] = dict(prop=m['prop'], result='does-not-apply')
                continue
            t0 = time.time()
            env = dict(os.environ, VF_REPO=dst)
            r = subprocess.run([os.path.join(HERE, 'check'), m['prop'], 'quick', '--no-evidence', '--no-shrink'],
                               env=env, capture_output=True, text=True, cwd=HERE)
            fails = sorted({ln for ln in r.stdout.splitlines() if ln.startswith('FAIL')})
            killed = r.returncode == 1 and 'VIOLATION' in r.stdout
            what = [json.loads(ln[5:]).get('what') for ln in fails][:4]
            print(f"{m['id']:34s} {m['prop']} suite={suite:9s} check_exit={r.returncode} "
                  f"{'KILLED' if killed else 'SURVIVES'} {time.time() - t0:5.1f}s {what}", flush=True)
            if r.returncode == 2:
                print('    harness error:', r.stdout[-400:].replace('\n', ' | '))
            res[m['id']] = dict(prop=m['prop'], result='killed' if killed else ('harness-error' if r.returncode == 2 else 'survives'),
                                by=what, seconds=round(time.time() - t0, 1), note=m['note'], suite=suite)
        finally:
            shutil.rmtree(d, ignore_errors=True)
        json.dump(res, open(RES, 'w'), indent=1)


if __name__ == '__main__':
    main()
