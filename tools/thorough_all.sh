#!/bin/bash
# runs the thorough tier of every property once (development aid; evidence is NOT written: --no-evidence)
cd "$(dirname "$0")/.." || exit 2
for p in ${PROPS:-C01 C02 C03 C04 C05 C06 C07 C08 C09 C10 C11 C12 C13 C14 C15 C16 C17 C18 C19 C20}; do
  t0=$(date +%s); out=$(./check $p thorough --no-evidence --jobs ${JOBS:-8} 2>&1); rc=$?
  echo "$p exit=$rc $(( $(date +%s) - t0 ))s | $(echo "$out" | grep -E "^$p thorough" | cut -c1-170)"
  echo "$out" | grep -E "^   |^FAIL|VIOLATION|HARNESS|inconclusive" | cut -c1-260 | head -12
done
