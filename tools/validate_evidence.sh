#!/bin/bash
# validate evidence files against the schema with the tooling interpreter
for f in "$@"; do python3-vt -c 'import json,jsonschema,sys;jsonschema.validate(json.load(open(sys.argv[1])),json.load(open("/root/.vp/EVIDENCE.schema.json")));print("valid",sys.argv[1])' "$f" || exit 1; done
